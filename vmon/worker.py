"""Worker process: runs one shard of a property's cases under the monitors.

Protocol (JSON lines on --out): {"begin": id} before each case, the case's
result afterwards, and a final {"done": ...} record.  A missing "done" tells the
driver that the worker died (and "begin" tells it in which case).
"""
import argparse
import faulthandler
import importlib
import json
import os
import shutil
import sys
import tempfile
import time
import traceback

from . import boot
from .util import Result, rng_for, through_osyris


class Ctx:
    def __init__(self, a):
        self.prop, self.tier, self.seed = a.prop, a.tier, a.seed
        self.shard, self.nshards = a.shard, a.nshards
        self.work = a.work
        self.root = boot.src_root()
        self.osyris = None
        self.extra = {}       # module-level summary written into the done record
        self.replay = a.replay is not None

    def rng(self, *path):
        return rng_for(self.seed, self.prop, *path)

    def scratch(self, prefix="case-"):
        return tempfile.mkdtemp(prefix=prefix, dir=self.work)


def main(argv=None):
    ap = argparse.ArgumentParser()
    ap.add_argument("--prop", required=True)
    ap.add_argument("--tier", default="quick")
    ap.add_argument("--seed", type=int, default=0)
    ap.add_argument("--shard", type=int, default=0)
    ap.add_argument("--nshards", type=int, default=1)
    ap.add_argument("--out", required=True)
    ap.add_argument("--work", required=True)
    ap.add_argument("--replay")
    ap.add_argument("--only")  # comma separated case ids (crash re-runs)
    a = ap.parse_args(argv)

    faulthandler.enable(all_threads=True)
    os.makedirs(a.work, exist_ok=True)
    out = open(a.out, "a", buffering=1)

    def emit(obj):
        out.write(json.dumps(obj, default=repr) + "\n")
        out.flush()

    ctx = Ctx(a)
    t0 = time.time()
    try:
        ctx.osyris = boot.import_osyris()
        mod = importlib.import_module("vmon.props." + a.prop.lower())
        from . import trace
        traced = trace.start(ctx.root)
        if hasattr(mod, "setup"):
            mod.setup(ctx)
    except Exception:  # noqa: BLE001
        emit({"fatal": traceback.format_exc()})
        return 3

    if a.replay:
        with open(a.replay) as f:
            rep = json.load(f)
        cases = [rep["case"]]
    else:
        cases = mod.cases(ctx)
    only = set(a.only.split(",")) if a.only else None

    n = 0
    for idx, case in enumerate(cases):
        if not a.replay:
            if only is not None:
                if case["id"] not in only:
                    continue
            elif idx % a.nshards != a.shard:
                continue
        emit({"begin": case["id"]})
        res = Result(case)
        try:
            mod.run_case(case, ctx, res)
            rec = res.to_json()
        except Exception as e:  # noqa: BLE001
            rec = res.to_json()
            tb = traceback.format_exc(limit=12)
            if through_osyris(e, ctx.root):
                # valid input, yet an exception escaped from the code under test
                rec["violations"].append(
                    {"mech": "uncaught-exception:" + type(e).__name__,
                     "msg": f"{type(e).__name__}: {str(e)[:300]}", "detail": {"traceback": tb}}
                )
            else:
                rec["harness_error"] = tb
        emit(rec)
        n += 1
    extra = {}
    try:
        if hasattr(mod, "finish"):
            extra = mod.finish(ctx) or {}
    except Exception:  # noqa: BLE001
        extra = {"finish_error": traceback.format_exc()}
    try:
        if traced:
            extra = dict(extra)
            from .checkpoints import FOR
            extra["trace"] = trace.report(getattr(mod, "CHECKPOINTS", FOR.get(a.prop.upper(), [])))
            if os.environ.get("VMON_LINES_DIR"):
                trace.dump(os.path.join(os.environ["VMON_LINES_DIR"], f"{a.prop.upper()}-{os.getpid()}.json"))
            trace.stop()
    except Exception:  # noqa: BLE001
        extra["trace_error"] = traceback.format_exc()
    emit({"done": True, "cases": n, "wall_s": round(time.time() - t0, 3), "extra": extra})
    shutil.rmtree(a.work, ignore_errors=True)
    return 0


if __name__ == "__main__":
    sys.exit(main())
