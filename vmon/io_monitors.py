"""E-IO: observation of the loader and comparison of what it returns with the synthesiser's model."""
import contextlib
import io
import math
import os
import re
import sys

import numpy as np

from . import ramses_synth as rs
from .unitsref import Q, compare_quantity, dims_close, scale_dims
from .util import attempt

CM, G, S, K = "centimeter", "gram", "second", "kelvin"


def _d(**kw):
    return tuple(sorted((k, float(v)) for k, v in kw.items() if v))


def expected_unit(name, spec):
    """Independent table: variable name -> (factor to CGS, dimension).  Mirrors what RAMSES' code units
    mean physically (and the wildcard convention `name_*` for components / groups)."""
    ud, ul, ut = spec["unit_d"], spec["unit_l"], spec["unit_t"]
    vel = ul / ut

    def has(prefix):
        return name == prefix or name.startswith(prefix + "_")
    if name == "density":
        return ud, _d(**{G: 1, CM: -3})
    if has("velocity"):
        return vel, _d(**{CM: 1, S: -1})
    if has("momentum"):
        return ud * vel, _d(**{G: 1, CM: -2, S: -1})
    if name in ("magnetic_field",) or has("B_left") or has("B_right") or has("B_field") or \
            re.match(r"B_.+_left", name) or re.match(r"B_.+_right", name):
        return math.sqrt(4.0 * math.pi * ud * vel ** 2), _d(**{G: 0.5, CM: -0.5, S: -1})
    if name in ("energy", "internal_energy", "thermal_pressure", "pressure") or has("radiative_energy"):
        return ud * vel ** 2, _d(**{G: 1, CM: -1, S: -2})
    if name == "acceleration" or has("grav_acceleration"):
        return ul / ut ** 2, _d(**{CM: 1, S: -2})
    if name == "grav_potential":
        return vel ** 2, _d(**{CM: 2, S: -2})
    if name == "temperature":
        return 1.0, _d(**{K: 1})
    if name == "mass":
        return ud * ul ** 3, _d(**{G: 1})
    if name == "time":
        return ut, _d(**{S: 1})
    if name in ("x", "y", "z", "dx", "length") or has("position"):
        return ul, _d(**{CM: 1})
    return 1.0, ()


def vector_families(names, ndim):
    """Naming oracle: -> (vectors {vecname: [component names]}, scalars [names kept])."""
    names = list(names)
    comps = "xyz"[:ndim]
    vectors, used = {}, set()
    if ndim > 1:
        for key in names:
            for p, ch in enumerate(key):
                if ch != "x":
                    continue
                fam = [key[:p] + c + key[p + 1:] for c in comps]
                if all(f in names for f in fam):
                    stem = key[:p - 1] if (p > 0 and key[p - 1] == "_") else key[:p]
                    vname = stem + key[p + 1:]
                    if vname == "":
                        vname = "position"
                    vectors[vname] = fam
                    used.update(fam)
    scalars = [n for n in names if n not in used]
    return vectors, scalars


@contextlib.contextmanager
def quiet():
    buf = io.StringIO()
    old = sys.stdout
    sys.stdout = buf
    try:
        yield buf
    finally:
        sys.stdout = old


class OpenLog:
    """sys.addaudithook based log of the files opened under a directory (installed once per process)."""

    _installed = False
    events = []
    root = None

    @classmethod
    def install(cls):
        if cls._installed:
            return
        cls._installed = True

        def hook(event, args):
            if event == "open" and cls.root is not None:
                p = args[0]
                if isinstance(p, (str, bytes, os.PathLike)):
                    try:
                        p = os.fspath(p)
                        if isinstance(p, bytes):
                            p = p.decode()
                    except Exception:  # noqa: BLE001
                        return
                    if p.startswith(cls.root):
                        cls.events.append(os.path.basename(p))
        sys.addaudithook(hook)

    @classmethod
    def start(cls, root):
        cls.install()
        cls.root = root
        cls.events = []

    @classmethod
    def stop(cls):
        ev, cls.events, cls.root = cls.events, [], None
        return ev


def load(osy, path, nout, **kw):
    """fresh RamsesDataset(...).load(**kw) -> (Outcome, stdout text, files opened)"""
    OpenLog.start(path)
    with quiet() as buf:
        out = attempt(lambda: osy.RamsesDataset(nout, path=path).load(**kw))
    return out, buf.getvalue(), OpenLog.stop()


def cpus_opened(events, kind="amr"):
    out = set()
    for e in events:
        m = re.match(rf"{kind}_\d+\.out(\d+)$", e)
        if m:
            out.add(int(m.group(1)))
    return out


def mesh_rows(ds_mesh, ndim, spec):
    """positions of the loaded mesh in model units (fractions of the box), levels"""
    ul_box = spec["boxlen"] * spec["unit_l"]
    if ndim == 1:
        pos = np.asarray(ds_mesh["position_x"].to("cm").values, dtype=float).reshape(-1, 1)
    else:
        p = ds_mesh["position"].to("cm")
        pos = np.stack([np.asarray(getattr(p, c).values, dtype=float) for c in "xyz"[:ndim]], axis=1)
    return pos / ul_box


def match_rows(pos_loaded, lev_loaded, exp):
    """Match loaded rows to expected leaves as a multiset keyed by (level, integer cell index).
    -> (perm, problems): perm[i] = expected row of loaded row i (or -1)."""
    def keyify(pos, lev):
        idx = np.floor(pos * (2.0 ** lev)[:, None] + 1e-6).astype(np.int64)
        return [(int(lv),) + tuple(int(v) for v in r) for lv, r in zip(lev, idx)]
    ek = keyify(exp["pos"], exp["level"])
    lut = {}
    for j, k in enumerate(ek):
        lut.setdefault(k, []).append(j)
    lk = keyify(pos_loaded, lev_loaded)
    perm = -np.ones(len(lk), dtype=np.int64)
    used = set()
    extra, dup = [], []
    for i, k in enumerate(lk):
        js = lut.get(k)
        if not js:
            extra.append(k)
            continue
        j = js[0]
        if j in used:
            dup.append(k)
            continue
        used.add(j)
        perm[i] = j
    missing = [ek[j] for j in range(len(ek)) if j not in used]
    return perm, {"extra": extra, "duplicated": dup, "missing": missing}


def check_mesh(res, osy, model, mesh, meta, exp, what="full load", lmax=None, variables=None, tol=1e-12,
               check_keys=True):
    """Compare a loaded mesh group with the model's expectation `exp` (rows as a multiset, then every
    variable row-wise).  Returns True if everything agreed."""
    spec = model.spec
    ndim = model.ndim
    ok = True
    n_loaded = mesh.shape[0] if mesh.shape else (1 if len(mesh) else 0)
    try:
        lev = np.asarray(mesh["level"].values).astype(np.int64).reshape(-1)
        pos = mesh_rows(mesh, ndim, spec)
    except KeyError as e:
        res.violate("mesh-key-missing", f"{what}: mesh has no {e}", keys=list(mesh.keys()))
        return False
    perm, prob = match_rows(pos, lev, exp)
    res.count("row-multiset")
    if prob["extra"] or prob["duplicated"] or prob["missing"] or len(lev) != len(exp["level"]):
        mech = "rows-missing" if prob["missing"] and not (prob["extra"] or prob["duplicated"]) else (
            "rows-duplicated" if prob["duplicated"] else "rows-wrong")
        res.violate(mech, f"{what}: {len(lev)} rows loaded, model has {len(exp['level'])} leaves; "
                    f"missing {len(prob['missing'])} (e.g. {prob['missing'][:3]}), duplicated {len(prob['duplicated'])} "
                    f"(e.g. {prob['duplicated'][:3]}), not in model {len(prob['extra'])} (e.g. {prob['extra'][:3]}) "
                    f"[(level, ix, iy, iz)]", spec=spec_brief(spec))
        return False
    j = perm
    # geometry / bookkeeping variables
    res.count("geometry")
    boxcm = spec["boxlen"] * spec["unit_l"]
    if np.any(np.abs(pos - exp["pos"][j]) > 1e-12):
        res.violate("position-wrong", f"{what}: cell centres differ from oct centre + child offset by up to "
                    f"{np.abs(pos - exp['pos'][j]).max():.3g} box lengths", spec=spec_brief(spec))
        ok = False
    dxl = np.asarray(mesh["dx"].to("cm").values, dtype=float) / boxcm
    if np.any(np.abs(dxl - exp["dx"][j]) > 1e-12 * exp["dx"][j]):
        res.violate("dx-wrong", f"{what}: cell sizes differ from 0.5**level * boxlen", spec=spec_brief(spec))
        ok = False
    for key, dimname in (("position_x" if ndim == 1 else "position", CM), ("dx", CM)):
        if not dims_close(scale_dims(mesh[key].unit)[1], _d(**{dimname: 1})):
            res.violate("unit-wrong", f"{what}: {key} labelled {mesh[key].unit!s}", spec=spec_brief(spec))
            ok = False
    cpu = np.asarray(mesh["cpu"].values).astype(np.int64)
    if np.any(cpu != exp["cpu"][j]):
        res.violate("cpu-wrong", f"{what}: 'cpu' differs from the owning CPU for {(cpu != exp['cpu'][j]).sum()} rows",
                    spec=spec_brief(spec))
        ok = False
    # stored variables
    kinds = [("hydro", rs.cell_vars(model, "hydro"))]
    if spec["grav"]:
        kinds.append(("grav", rs.cell_vars(model, "grav")))
    if spec["rt"]:
        kinds.append(("rt", rs.cell_vars(model, "rt")))
    allnames = ["level", "cpu", "dx"] + ["position_" + c for c in "xyz"[:ndim]]
    for kind, names in kinds:
        allnames += names
    if variables is not None:
        allnames = [n for n in allnames if n in variables]
    vectors, scalars = vector_families(allnames, ndim)
    where = {}
    for vname, fam in vectors.items():
        for c, comp in zip("xyz", fam):
            where[comp] = (vname, c)
    for kind, names in kinds:
        for iv, name in enumerate(names):
            if variables is not None and name not in variables:
                continue
            res.count("variable-values")
            stored = rs.expected_values(model, exp, kind, iv)[j]
            fac, dims = expected_unit(name, spec)
            if name in where:
                vname, c = where[name]
                if vname not in mesh.keys() or type(mesh[vname]).__name__ != "Vector":
                    res.violate("vector-not-assembled", f"{what}: components {vectors[vname]} not merged into "
                                f"Vector {vname!r}; keys {sorted(mesh.keys())}", spec=spec_brief(spec))
                    ok = False
                    continue
                arr = getattr(mesh[vname], c)
                if arr is None:
                    res.violate("vector-component-missing", f"{what}: Vector {vname!r} has no {c} component",
                                spec=spec_brief(spec))
                    ok = False
                    continue
            else:
                if name not in mesh.keys():
                    res.violate("variable-missing", f"{what}: variable {name!r} not returned; keys {sorted(mesh.keys())}",
                                spec=spec_brief(spec))
                    ok = False
                    continue
                arr = mesh[name]
                if type(arr).__name__ != "Array":
                    res.violate("scalar-became-vector", f"{what}: {name!r} is a {type(arr).__name__}", spec=spec_brief(spec))
                    ok = False
                    continue
            msg = compare_quantity(arr.values, arr.unit, Q(np.asarray(stored, dtype=np.longdouble) * np.longdouble(fac), dims), tol)
            if msg:
                s, d = scale_dims(arr.unit)
                got = np.asarray(arr.values, dtype=float) * s / fac
                bad = np.argwhere(np.abs(got - stored) > 1e-9 * np.abs(stored)).ravel()
                detail = ""
                mech = "unit-wrong" if not dims_close(d, dims) else "value-wrong"
                if mech == "value-wrong" and len(bad):
                    b = int(bad[0])
                    dec = rs.decode_value(float(got[b]))
                    want = rs.decode_value(float(stored[b]))
                    detail = f"; row {b} decodes to {dec}, wanted {want}"
                    if dec.get("ghost_copy") or dec.get("boundary"):
                        mech = "ghost-copy-returned"
                    elif abs(got[b]) > 0 and abs(math.log10(abs(got[b]) / abs(stored[b]))) > 1e-9 and \
                            np.allclose(got / stored, got[b] / stored[b], rtol=1e-9):
                        mech = "unit-factor-wrong"
                        detail = f"; all rows off by the factor {got[b] / stored[b]:.6g}"
                    else:
                        mech = "value-from-other-record"
                res.violate(mech, f"{what}: variable {name!r} ({kind} #{iv}): {msg}{detail}", spec=spec_brief(spec))
                ok = False
    # keys: nothing lost, nothing invented
    if check_keys:
        expect_keys = set(scalars) | set(vectors)
        derived = set()
        if "density" in expect_keys and "dx" in expect_keys:
            derived.add("mass")
        if "B_left" in expect_keys and "B_right" in expect_keys:
            derived.add("B_field")
        got_keys = set(mesh.keys())
        res.count("key-set")
        if got_keys != expect_keys | derived:
            res.violate("keys-differ", f"{what}: keys {sorted(got_keys)} != expected {sorted(expect_keys | derived)}",
                        spec=spec_brief(spec))
            ok = False
        if "mass" in derived and "mass" in got_keys:
            res.count("derived-variables")
            iv = rs.cell_vars(model, "hydro").index("density")
            rho = rs.expected_values(model, exp, "hydro", iv)[j] * spec["unit_d"]
            vol = (exp["dx"][j] * boxcm) ** 3
            m = mesh["mass"]
            msg = compare_quantity(m.values, m.unit, Q(np.asarray(rho * vol, dtype=np.longdouble), _d(**{G: 1})), 1e-11)
            if msg:
                res.violate("derived-mass-wrong", f"{what}: mass != density*dx**3: {msg}", spec=spec_brief(spec))
                ok = False
            if str(m.unit) not in ("solar_mass", "M_sun"):
                res.violate("derived-mass-unit", f"{what}: mass labelled {m.unit!s}, configured M_sun", spec=spec_brief(spec))
                ok = False
        if "B_field" in derived and "B_field" in got_keys:
            res.count("derived-variables")
            names = rs.cell_vars(model, "hydro")
            fac, dims = expected_unit("B_field", spec)
            for c in "xyz"[:ndim]:
                il, ir = names.index(f"B_{c}_left"), names.index(f"B_{c}_right")
                want = 0.5 * (rs.expected_values(model, exp, "hydro", il)[j] + rs.expected_values(model, exp, "hydro", ir)[j]) * fac
                arr = getattr(mesh["B_field"], c)
                msg = compare_quantity(arr.values, arr.unit, Q(np.asarray(want, dtype=np.longdouble), dims), 1e-11)
                if msg:
                    res.violate("derived-bfield-wrong", f"{what}: B_field.{c} != (B_left+B_right)/2: {msg}", spec=spec_brief(spec))
                    ok = False
    return ok


def check_meta(res, osy, model, ds, nrows, what="full load"):
    spec = model.spec
    meta = ds.meta
    res.count("meta")
    ok = True
    if int(meta.get("ncells", -1)) != nrows:
        res.violate("meta-ncells", f"{what}: meta['ncells'] = {meta.get('ncells')} but the mesh has {nrows} rows")
        ok = False
    for k in ("ndim", "ncpu", "levelmax"):
        if meta.get(k) != spec[k]:
            res.violate("meta-wrong", f"{what}: meta[{k!r}] = {meta.get(k)!r}, file says {spec[k]!r}")
            ok = False
    for k in ("unit_d", "unit_l", "unit_t", "boxlen"):
        if meta.get(k) != spec[k]:
            res.violate("meta-wrong", f"{what}: meta[{k!r}] = {meta.get(k)!r}, file says {spec[k]!r}")
            ok = False
    t = meta.get("time")
    try:
        tq = t.to("s").magnitude
        if abs(tq - spec["time"] * spec["unit_t"]) > 1e-12 * abs(spec["time"] * spec["unit_t"]):
            res.violate("meta-time", f"{what}: meta['time'] = {t!s}, expected {spec['time'] * spec['unit_t']} s")
            ok = False
    except Exception as e:  # noqa: BLE001
        res.violate("meta-time", f"{what}: meta['time'] = {t!r} is not a time quantity ({e})")
        ok = False
    return ok


def spec_brief(spec):
    keep = ("nout", "ndim", "ncpu", "levelmin", "levelmax", "nboundary", "nxyz", "boxlen", "noutput", "key_bytes",
            "ordering", "tree_seed", "refine_prob", "max_octs", "style", "ghost_prob", "hydro", "grav", "rt",
            "bound_style", "unit_d", "unit_l", "unit_t")
    return {k: spec[k] for k in keep if k in spec}
