"""C05 - histogram2d bins every point exactly once, independent of the thread schedule.

The grid is observed, not re-derived: the arguments osyris.histogram2d really hands to its kernel are captured
by wrapping the module attribute; on that grid the exact bin of every point is computed in extended
precision (points within 16 ulp of an edge may fall on either side).  Schedule part: vmon.sched.
"""
import sys

import numpy as np

from .. import sched
from ..io_monitors import quiet
from ..snapshot import fp
from ..util import attempt

TITLE = "2-D histogram bins every point exactly once, independent of thread schedule"
RULE = (
    "case i -> rng(seed, C05, i): n in {0,1,2,..,1e5} points (uniform, single bin, two bins, clumps, constants, "
    "points within one bin width outside each limit, NaN/inf entries, non-positive values on log axes, "
    "float32/int inputs), resolution 1..512, explicit or automatic limits, linear/log axes, layer values as small integers / reals in double or single "
    "precision / int32 / bool (incl. calls where everything is single precision), one bin crowded with more than "
    "2**24 points, default count "
    "layer or 1-3 value layers with per-layer / call-level operation sum|mean; both osyris.histogram2d and "
    "the kernel itself; schedule cases: all points in one bin, two bins, 2x2, clumps, uniform with 2e3..2e6 "
    "(thorough 1e7) points under 1..16 threads x chunk sizes x {omp, workqueue} x affinity {16, 2, 1 cores}, "
    "compared bit for bit with the sequential model (integer-valued weights: any summation order is exact).  "
    "Non-trivial = >=2 points share a bin and >=1 point lies outside the range; distinct = distinct inputs."
)
ASSUMPTIONS = ["resolution given as a dict is not part of the statement (it raises today)",
               "x == xmax is an edge point (may be dropped or put in the last bin)",
               "all schedules are sampled, never enumerated (numba offers no scheduler control)"]

EDGE_ULPS = 16


def plan(tier):
    return {"shards": 16, "timeout": 1500 if tier == "quick" else 6 * 3600,
            "shard_env": sched.shard_env,
            "required_monitors": ["bins-judged", "conservation", "grid-observed", "kernel-direct", "schedule-runs",
                                  "boundscheck-runs", "conflict-monitor-runs"],
            "required_tags": ["just-outside-limits", "log-axis", "auto-limits", "explicit-limits", "mean-layer",
                              "nan-inf-points", "empty-input", "layer-omp", "layer-workqueue", "float32-layer",
                              "crowded-bin", "points-one-ulp-from-limits"]}


def cases(ctx):
    out = []
    for i in range(40):
        out.append({"id": f"fix{i}", "i": i, "fixed": True})
    n = 200 if ctx.tier == "quick" else 5000
    out += [{"id": f"r{i}", "i": i} for i in range(n)]
    ns = 32 if ctx.tier == "quick" else 160
    out += [{"id": f"s{i}", "i": i, "sched": True} for i in range(ns)]
    # one bin holding more points than single precision can count (2**24), single- and double-precision coordinates
    out += [{"id": f"big{i}", "i": i, "big": True} for i in range(2 if ctx.tier == "quick" else 4)]
    return out


LD = np.longdouble


def exact_bins(v, vmin, vmax, n, feps=None):
    """-> (k, lo, hi): certain bin index k (or -1 = outside / non-finite) and, for points within EDGE_ULPS of an
    edge, the two admissible indices lo <= hi (each may be -1 = 'no bin')"""
    LD = np.longdouble
    v = np.asarray(v, dtype=LD)
    width = (LD(vmax) - LD(vmin)) / n
    with np.errstate(all="ignore"):
        t = (v - LD(vmin)) / width
        k = np.floor(t)
        fin = np.isfinite(t)
        # the kernel computes in the precision of the coordinates it is given (float32 data -> float32)
        feps = np.finfo(np.float64).eps if feps is None else feps
        eps = EDGE_ULPS * feps * (np.abs(v) + abs(LD(vmin)) + abs(LD(vmax))) / abs(width)
        near_lo = fin & (t - k < eps)
        near_hi = fin & (k + 1 - t < eps)

    def clip(idx):
        idx = np.where(fin, idx, -1)
        return np.where((idx >= 0) & (idx < n), idx, -1).astype(np.int64)
    kk = clip(np.where(fin, k, -1))
    lo = np.where(near_lo, clip(k - 1), kk)
    hi = np.where(near_hi, clip(k + 1), kk)
    amb = near_lo | near_hi
    return kk, lo, hi, amb


def judge(res, label, x, y, layers_vals, ops, grid, got_layers, got_counts=None, feps=None):
    """Compare binned results with the exact model on the observed grid.
    layers_vals: list of value arrays; ops: 'sum'|'mean'|'count'; got_layers: list of masked arrays (ny, nx)."""
    xmin, xmax, nx, ymin, ymax, ny = grid
    kx, lox, hix, ax = exact_bins(x, xmin, xmax, nx, feps)
    ky, loy, hiy, ay = exact_bins(y, ymin, ymax, ny, feps)
    amb = ax | ay
    sure = (~amb) & (kx >= 0) & (ky >= 0)
    counts = np.zeros((ny, nx), dtype=np.int64)
    np.add.at(counts, (ky[sure], kx[sure]), 1)
    # bins that an edge point could fall into are not judged exactly
    fuzzy = np.zeros((ny, nx), dtype=bool)
    maybe = 0
    for i in np.argwhere(amb).ravel():
        for bx in {int(lox[i]), int(hix[i]), int(kx[i])}:
            for by in {int(loy[i]), int(hiy[i]), int(ky[i])}:
                if bx >= 0 and by >= 0:
                    fuzzy[by, bx] = True
        maybe += 1
    res.count("bins-judged", int((~fuzzy).sum()))
    res.count("edge-points-not-judged", int(maybe))
    for vals, op, got in zip(layers_vals, ops, got_layers):
        mask = np.ma.getmaskarray(got)
        data = np.ma.getdata(got)
        if data.shape != (ny, nx):
            res.violate("data-shape", f"{label}: layer shape {data.shape} != (ny, nx) = {(ny, nx)}")
            return False
        exp_mask = counts == 0
        bad = ~fuzzy & (mask != exp_mask)
        if bad.any():
            j, i = (int(v) for v in np.argwhere(bad)[0])
            mech = "empty-bin-unmasked" if not mask[j, i] else "nonempty-bin-masked"
            if not mask[j, i]:
                # which points did osyris put there?
                below = ((np.asarray(x, float) < xmin) | (np.asarray(y, float) < ymin)).sum()
                if below and (i == 0 or j == 0):
                    mech = "point-below-lower-limit-counted"
            res.violate(mech, f"{label}: bin (iy={j}, ix={i}) holds {int(counts[j, i])} points but masked={bool(mask[j, i])} "
                        f"(value {data[j, i]!r})")
            return False
        if op == "count":
            exp = counts.astype(float)
        else:
            # the stored values are the values (float32 -> float64 is exact); the sum of n doubles in any order is
            # within n * 1.1e-16 * sum|v| of the exact sum: n <= 1e5 -> 1e-9 * sum|v| is a sound bound, and far below
            # what accumulating in single precision gives (6e-8 per addition)
            s = np.zeros((ny, nx), dtype=LD)
            sabs = np.zeros((ny, nx), dtype=LD)
            vv = np.asarray(vals).astype(LD)[sure]
            np.add.at(s, (ky[sure], kx[sure]), vv)
            np.add.at(sabs, (ky[sure], kx[sure]), np.abs(vv))
            s, sabs = s.astype(float), sabs.astype(float)
            exp = s if op == "sum" else np.where(counts > 0, s / np.maximum(counts, 1), 0.0)
            if op != "sum":
                sabs = sabs / np.maximum(counts, 1)
        ok = ~fuzzy & ~exp_mask
        tol = 1e-9 * (np.abs(exp) if op == "count" else sabs) + 1e-12
        bad = ok & (np.abs(data - exp) > tol)
        if bad.any():
            j, i = (int(v) for v in np.argwhere(bad)[0])
            mech = "bin-content-wrong"
            if op == "count" or np.all(np.asarray(vals) == 1):
                mech = "count-wrong"
                if data[j, i] > exp[j, i] and (i == 0 or j == 0):
                    mech = "point-below-lower-limit-counted"
            res.violate(mech, f"{label}: {int(bad.sum())} bins differ for operation {op}; bin (iy={j}, ix={i}): got {data[j, i]!r}, "
                        f"model {exp[j, i]!r} from {int(counts[j, i])} points")
            return False
        if op == "count" and not fuzzy.any():
            res.count("conservation")
            tot = float(np.ma.filled(got, 0).sum())
            if tot != float(sure.sum()):
                res.violate("total-not-conserved", f"{label}: counts add up to {tot}, {int(sure.sum())} points are in range")
                return False
    return True


def _crowded(case, ctx, res):
    """A bin with more than 2**24 points: the default layer is the number of points, a 'sum' layer of ones too, and a
    'mean' layer of a constant is that constant.  All points are strictly inside explicit limits, so the model is
    known without locating 16 million points."""
    osy = ctx.osyris
    i = case["i"]
    rng = np.random.default_rng(np.random.SeedSequence([20240205, 55, i]))
    n = 2 ** 24 + int(rng.integers(3, 2000))
    dt = ["float32", "float64"][i % 2]
    x = rng.uniform(0.25, 0.75, n).astype(dt)
    y = rng.uniform(0.25, 0.75, n).astype(dt)
    xa = osy.Array(values=x, unit="cm", name="xx")
    ya = osy.Array(values=y, unit="K", name="yy")
    nb = [1, 2][(i // 2) % 2]
    kw = dict(resolution=nb, xmin=0.0 if nb == 1 else 0.2, xmax=1.0 if nb == 1 else 1.4, ymin=0.0, ymax=1.0 if nb == 1 else 2.0,
              plot=False)
    label = f"histogram2d(n=2**24+{n - 2 ** 24}, {dt}, all points in one bin of a {nb}x{nb} grid)"
    res.sample = {"call": label}
    res.digest_src = {"big": i}
    res.tag("crowded-bin")
    res.nontrivial = True
    from osyris.core.layer import Layer
    ones = osy.Array(values=np.ones(n, dtype=dt), unit="g", name="w")
    half = osy.Array(values=np.full(n, 0.5, dtype=dt), unit="g", name="h")
    for what, layers, want in (("default layer", [], float(n)), ("sum of ones", [Layer(ones, operation="sum")], float(n)),
                               ("mean of 0.5", [Layer(half, operation="mean")], 0.5)):
        with quiet():
            out = attempt(lambda: osy.histogram2d(xa, ya, *layers, **kw))
        if not out.ok:
            res.violate("histogram-raised", f"{label}: {out.describe()}", tb=out.tb)
            return
        res.count("bins-judged", nb * nb)
        data = np.ma.getdata(out.value.layers[0]["data"])
        mask = np.ma.getmaskarray(out.value.layers[0]["data"])
        got = float(data[0, 0])
        if mask[0, 0] or abs(got - want) > 1e-9 * want:
            res.violate("count-wrong" if want == float(n) else "bin-content-wrong",
                        f"{label}: {what} of the crowded bin is {got!r} (masked={bool(mask[0, 0])}), the bin holds {n} points -> {want!r}")
            return
        if nb > 1 and not mask.ravel()[1:].all():
            res.violate("empty-bin-unmasked", f"{label}: {what}: an empty bin is not masked")
            return


def run_case(case, ctx, res):
    if case.get("sched"):
        return sched.run_hist_kernel_case(case, ctx, res)
    if case.get("big"):
        return _crowded(case, ctx, res)
    osy = ctx.osyris
    mod = sys.modules["osyris.plot.histogram2d"]
    from osyris.plot import utils as pu
    rng = (np.random.default_rng(np.random.SeedSequence([20240205, 5, case["i"]])) if case.get("fixed") else ctx.rng(case["i"]))
    fi = case["i"] if case.get("fixed") else None
    # ---- inputs
    nmode = int(rng.integers(0, 6)) if fi is None else fi % 6
    n = [0, 1, 2, int(rng.integers(3, 50)), int(rng.integers(50, 5000)), int(rng.integers(5000, 100000))][nmode]
    dist = str(rng.choice(["uniform", "single", "two", "clumps", "constant", "wide"])) if fi is None else \
        ["uniform", "single", "two", "clumps", "constant", "wide"][(fi // 6) % 6]
    logx = bool(rng.random() < 0.3) if fi is None else fi % 7 == 3
    logy = bool(rng.random() < 0.2) if fi is None else fi % 9 == 4

    def draw(nn):
        if dist == "uniform":
            return rng.uniform(-3, 7, nn)
        if dist == "single":
            return rng.uniform(2.01, 2.09, nn)
        if dist == "two":
            return rng.choice([1.0, 5.0], nn) + rng.uniform(-0.01, 0.01, nn)
        if dist == "clumps":
            return rng.choice([0.5, 2.5, 6.5], nn) + 0.05 * rng.normal(size=nn)
        if dist == "constant":
            return np.full(nn, float(rng.choice([0.0, 3.5, -2.0])))
        return rng.uniform(-30, 30, nn)
    x, y = draw(n), draw(n)
    dt_hint = str(rng.choice(["float64", "float64", "float32", "int64"]))
    if logx:
        x = np.abs(x) + (0.0 if rng.random() < 0.3 else 1e-3)     # may contain zeros -> log10 = -inf
    if logy:
        y = np.abs(y) + 1e-3
    bulk = (np.array(x, dtype=float), np.array(y, dtype=float))     # explicit limits are taken from the bulk of the data
    if n > 6 and rng.random() < 0.4:
        # finite values (very) far outside any sensible range: "any value distribution"
        for k in range(int(rng.integers(1, 5))):
            far = float(rng.choice([2.0 ** 24, 2.0 ** 31, 2.0 ** 32, 2.0 ** 33, 2.0 ** 40, 2.0 ** 63, 2.0 ** 64, 1e10, 1e300]))
            if dt_hint == "int64":
                far = min(far, 2.0 ** 40)      # integer data: stay far inside int64 (overflow is numpy's, not judged)
            far = far * float(rng.choice([-1.0, 1.0])) + float(rng.uniform(0, 1))
            (x if rng.random() < 0.5 else y)[int(rng.integers(0, n))] = far
        res.tag("far-outliers")
    if n > 3 and rng.random() < 0.3:
        x[int(rng.integers(0, n))] = np.nan
        y[int(rng.integers(0, n))] = np.inf
        x[int(rng.integers(0, n))] = -np.inf
        res.tag("nan-inf-points")
    dt = dt_hint
    if dt == "int64":
        x = np.where(np.isfinite(x), np.round(x), 0).astype("int64")
        if logx:
            x = np.maximum(x, 1)
    elif dt == "float32":
        x = x.astype("float32")
    res_n = int(rng.choice([1, 2, 3, 8, 16, 64, 256, 512])) if n < 20000 else int(rng.choice([8, 64, 256]))
    explicit = rng.random() < 0.6 if fi is None else fi % 2 == 0
    kw = {"resolution": res_n, "plot": False}
    if logx:
        kw["logx"] = True
        res.tag("log-axis")
    if logy:
        kw["logy"] = True
        res.tag("log-axis")
    if explicit and n > 0:
        res.tag("explicit-limits")
        fx = bulk[0][np.isfinite(bulk[0])] if len(bulk[0]) == n else np.asarray(x, float)
        fy = bulk[1][np.isfinite(bulk[1])] if len(bulk[1]) == n else np.asarray(y, float)
        if len(fx) and len(fy):
            lo, hi = float(fx.min()), float(fx.max())
            xlo, xhi = lo, hi
            w = (hi - lo) or 1.0
            # limits that cut into the data: points within one bin width outside each limit
            kw["xmin"] = lo + w * float(rng.uniform(0.0, 0.3)) + (1e-3 if logx else 0)
            kw["xmax"] = hi - w * float(rng.uniform(0.0, 0.3)) + 1e-2
            if logx:
                kw["xmin"] = max(kw["xmin"], 1e-3)
                kw["xmax"] = max(kw["xmax"], kw["xmin"] * 1.5)
            lo, hi = float(fy.min()), float(fy.max())
            w = (hi - lo) or 1.0
            kw["ymin"] = lo + w * float(rng.uniform(0.0, 0.2)) + (1e-3 if logy else 0)
            kw["ymax"] = hi + w * float(rng.uniform(0.0, 0.2)) + 1e-2
            if logy:
                kw["ymin"] = max(kw["ymin"], 1e-3)
                kw["ymax"] = max(kw["ymax"], kw["ymin"] * 1.5)
            # a limit that is set, but falsy: exactly zero
            if not logx and rng.random() < 0.25 and xlo < 0 < xhi:
                kw["xmin" if rng.random() < 0.5 else "xmax"] = 0.0
                res.tag("explicit-limit-zero")
            if kw["xmax"] <= kw["xmin"]:
                kw["xmax"] = kw["xmin"] + 1.0
            res.tag("just-outside-limits")
    else:
        res.tag("auto-limits")
    if "xmax" in kw and "ymax" in kw and n >= 16 and not logx and not logy and np.asarray(x).dtype.kind == "f":
        # points on, one ulp below and one ulp above each explicit limit (in the dtype of the data), the other coordinate
        # well inside the range: such a point belongs to the first/last bin or to none - never to any other bin
        xd, yd = np.asarray(x).dtype.type, np.asarray(y).dtype.type
        xmid = xd(0.5 * (kw["xmin"] + kw["xmax"]))
        ymid = yd(0.5 * (kw["ymin"] + kw["ymax"]))
        pts = []
        for lim in (kw["xmin"], kw["xmax"]):
            for v in (np.nextafter(xd(lim), xd(-np.inf)), xd(lim), np.nextafter(xd(lim), xd(np.inf))):
                pts.append((v, ymid))
        for lim in (kw["ymin"], kw["ymax"]):
            for v in (np.nextafter(yd(lim), yd(-np.inf)), yd(lim), np.nextafter(yd(lim), yd(np.inf))):
                pts.append((xmid, v))
        slots = rng.choice(n, size=len(pts), replace=False)
        for k, (px, py) in zip(slots, pts):
            x[k], y[k] = px, py
        res.tag("points-one-ulp-from-limits")
    xa = osy.Array(values=x, unit="cm", name="xx")
    ya = osy.Array(values=y, unit="K", name="yy")
    nl = int(rng.integers(0, 4)) if fi is None else fi % 4
    layers, layer_vals, layer_ops = [], [], []
    call_op = str(rng.choice(["sum", "mean"]))
    from osyris.core.layer import Layer
    # value types: small integers stored as doubles, reals in double / single precision, int32, bool; "all32" = every
    # layer of the call (and the coordinates) in single precision
    vmode = str(rng.choice(["small-int", "real64", "real32", "mixed", "all32", "int32"])) if fi is None else \
        ["small-int", "real64", "real32", "mixed", "all32", "int32"][(fi // 4) % 6]
    if vmode == "all32" and dt == "float64":
        x = x.astype("float32")
        y = y.astype("float32")
        dt = "float32"
        xa = osy.Array(values=x, unit="cm", name="xx")
        ya = osy.Array(values=y, unit="K", name="yy")
    for k in range(nl):
        vm = vmode if vmode != "mixed" else str(rng.choice(["small-int", "real64", "real32", "int32", "bool"]))
        if vm == "small-int":
            v = rng.integers(-5, 9, size=n).astype(float)
        elif vm == "real64":
            v = rng.normal(size=n) * 10.0 ** float(rng.integers(-3, 6)) + float(rng.choice([0.0, 1.0, 1e3]))
        elif vm in ("real32", "all32"):
            v = (rng.normal(size=n) * 10.0 ** float(rng.integers(-3, 6)) + float(rng.choice([0.0, 0.1, 1e3]))).astype("float32")
            res.tag("float32-layer")
        elif vm == "int32":
            v = rng.integers(-2000, 2000, size=n).astype("int32")
        else:
            v = rng.random(n) < 0.5
        arr = osy.Array(values=v, unit="g", name=f"w{k}")
        lop = [None, "sum", "mean"][int(rng.integers(0, 3))]
        layers.append(Layer(arr, operation=lop) if (lop or rng.random() < 0.5) else arr)
        layer_vals.append(v)
        layer_ops.append(lop or call_op)
        if (lop or call_op) == "mean":
            res.tag("mean-layer")
    if nl:
        kw["operation"] = call_op
    if n == 0:
        res.tag("empty-input")
    # ---- observe the grid handed to the kernel
    seen = {}
    orig = mod.hist2d

    def spy(*a, **k):
        seen["kw"] = dict(k)
        seen["args"] = a
        return orig(*a, **k)
    before = (fp(xa), fp(ya), fp(layers))
    mod.hist2d = spy
    try:
        with quiet(), np.errstate(all="ignore"):
            import warnings
            with warnings.catch_warnings():
                warnings.simplefilter("ignore")
                out = attempt(lambda: osy.histogram2d(xa, ya, *layers, **kw))
    finally:
        mod.hist2d = orig
    label = (f"histogram2d(n={n}, {dist}, {dt}, res={res_n}, logx={logx}, logy={logy}, "
             f"limits={ {k: round(v, 4) for k, v in kw.items() if k in ('xmin', 'xmax', 'ymin', 'ymax')} }, layers={layer_ops or ['count']})")
    res.digest_src = {"n": n, "dist": dist, "dt": dt, "kw": {k: v for k, v in kw.items()}, "ops": layer_ops, "i": case["i"]}
    res.sample = {"call": label}
    if (fp(xa), fp(ya), fp(layers)) != before:
        res.violate("input-mutated", f"{label}: an input object was modified")
    if not out.ok:
        if n == 0 or not np.any(np.isfinite(np.asarray(x, float))) or (logx and not np.any(np.asarray(x, float) > 0)):
            res.count("degenerate-refused")
            return
        if isinstance(out.exc, ValueError) and "zero-size" in str(out.exc):
            res.count("degenerate-refused")
            return
        res.violate("histogram-raised", f"{label}: {out.describe()}", tb=out.tb)
        return
    if "kw" not in seen or not seen["kw"]:
        res.inconclusive.append("kernel arguments not observed (hist2d no longer called with keywords)")
        return
    k = seen["kw"]
    grid = (float(k["xmin"]), float(k["xmax"]), int(k["nx"]), float(k["ymin"]), float(k["ymax"]), int(k["ny"]))
    res.count("grid-observed")
    xs = np.asarray(k["x"], dtype=float)
    ys = np.asarray(k["y"], dtype=float)
    xin = np.log10(np.asarray(x, float)) if logx else np.asarray(x, float)
    yin = np.log10(np.asarray(y, float)) if logy else np.asarray(y, float)
    with np.errstate(all="ignore"):
        def close(a, b):
            fin = np.isfinite(a) & np.isfinite(b)
            return np.array_equal(np.isnan(a), np.isnan(b)) and np.array_equal(a[~fin & ~np.isnan(a)], b[~fin & ~np.isnan(b)]) \
                and np.all(np.abs(a[fin] - b[fin]) <= (2e-6 if dt == "float32" else 1e-12) * (1 + np.abs(b[fin])))
        if xs.shape != xin.shape or not (close(xs, xin) and close(ys, yin)):
            res.violate("kernel-input-differs", f"{label}: the coordinates handed to the kernel are not the (log10 of the) input values")
            return
    if (grid[2], grid[5]) != (res_n, res_n):
        res.violate("resolution-ignored", f"{label}: grid {grid[2]}x{grid[5]} for resolution {res_n}")
        return
    xin, yin = xs, ys
    # limits
    for ax, lo, hi, vals, lg in (("x", grid[0], grid[1], xin, logx), ("y", grid[3], grid[4], yin, logy)):
        fin = vals[np.isfinite(vals)]
        for side, g in (("min", lo), ("max", hi)):
            key = ax + side
            if key in kw:
                want = np.log10(kw[key]) if lg else kw[key]
                if abs(g - want) > 1e-12 * max(1.0, abs(want)):
                    res.violate("explicit-limit-not-honoured", f"{label}: {key}={kw[key]} but the grid uses {g!r}")
                    return
            elif len(fin):
                if (side == "min" and not g < fin.min()) or (side == "max" and not g > fin.max()):
                    res.violate("auto-limit-excludes-data", f"{label}: automatic {key} = {g!r} does not contain the data "
                                f"[{fin.min()!r}, {fin.max()!r}] strictly")
                    return
    # returned pixel centres are the centres of the edges of that grid
    plot = out.value
    for ax, lo, hi, nn, lg, got in (("x", grid[0], grid[1], grid[2], logx, plot.x), ("y", grid[3], grid[4], grid[5], logy, plot.y)):
        e = np.logspace(lo, hi, nn + 1) if lg else np.linspace(lo, hi, nn + 1)
        c = 0.5 * (e[1:] + e[:-1])
        span = np.max(np.abs(e)) if len(e) else 1.0
        if np.asarray(got).shape != c.shape or np.max(np.abs(np.asarray(got) - c)) > (1e-5 if dt == "float32" else 1e-9) * span + 1e-300:
            res.violate("centres-wrong", f"{label}: Plot.{ax} is not the list of bin centres of the grid")
            return
    got_layers = [lay["data"] for lay in plot.layers]
    kdt = [np.asarray(k[c]).dtype for c in ("x", "y")] + [np.asarray(k[c]).dtype for c in ("xmin", "xmax", "ymin", "ymax")]
    feps = max(float(np.finfo(d).eps) for d in kdt if d.kind == "f") if any(d.kind == "f" for d in kdt) else None
    if any(d == np.float32 for d in kdt):
        feps = float(np.finfo(np.float32).eps)
    if nl == 0:
        ok = judge(res, label, xin, yin, [np.ones(n)], ["count"], grid, got_layers, feps=feps)
    else:
        ok = judge(res, label, xin, yin, layer_vals, layer_ops, grid, got_layers, feps=feps)
    kx, _, _, ambx = exact_bins(xin, grid[0], grid[1], grid[2])
    ky, _, _, amby = exact_bins(yin, grid[3], grid[4], grid[5])
    inr = (kx >= 0) & (ky >= 0)
    flat = ky[inr] * grid[2] + kx[inr]
    res.nontrivial = bool(len(flat) > len(set(flat.tolist())) and (~inr).any())
    # ---- the kernel itself on the same grid, with a count layer
    res.count("kernel-direct")
    ones = np.ones((1, n))
    o2 = attempt(lambda: pu.hist2d(xin.astype(float), yin.astype(float), ones, *grid))
    if not o2.ok:
        res.violate("kernel-raised", f"{label}: utils.hist2d {o2.describe()}")
        return
    b, c = o2.value
    judge(res, label + " [kernel]", xin, yin, [np.ones(n)], ["count"], grid, [np.ma.masked_where(c == 0, b[0])])   # float64 call
    if not np.array_equal(b[0], c.astype(float)):
        res.violate("kernel-sum-vs-count", f"{label}: kernel sums of a unit layer differ from its counts")
