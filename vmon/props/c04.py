"""C04 - selective loading equals filtering the full load (CPU pre-selection is sound).

* differential oracle: rows returned by load(select=...) vs the model's leaves filtered by the same
  predicates (all variables compared), opened files (sys.addaudithook) vs owners of qualifying leaves;
* explicit cpu_list vs the cells owned by the listed CPUs;
* structural monitor of the 3-D Hilbert key osyris computes: exhaustive for bit lengths 1..5 against an
  independent port, bijection, unit steps, prefix property; DOMAIN table parsing round trip.
"""
import itertools
import os
import shutil

import numpy as np

from .. import io_monitors as iom
from .. import ramses_synth as rs
from .. import selections as sel
from ..hilbert_ref import hilbert3d
from ..util import attempt

TITLE = "Selective loading equals filtering the full load (CPU pre-selection is sound)"
RULE = (
    "case i -> rng(seed, C04, i): 3-D hilbert outputs (1-32 CPUs, bound keys random / equal / tiny domains / "
    "placed next to oct keys, levelmin 1-3) and, less often, 2-D/1-D and non-hilbert outputs; interval "
    "predicates on 1-3 axes (open/closed, touching 0 and boxlen, wider than the box) built as boxes from 1/4 of "
    "a finest cell to the whole domain centred on (coarse) leaf centres, each containing a finest-level centre "
    "per constrained axis, optionally ANDed with value and level predicates; explicit cpu_list subsets.  "
    "Non-trivial = the predicate selects >=1 and not all leaves and the files opened are a proper subset of the "
    "CPU files; distinct = distinct (spec, predicates).  Hilbert structure: exhaustive, 37448 points."
)
ASSUMPTIONS = [
    "levelmax <= 6 in generated outputs (osyris caps its centre table at 2**18; not reached)",
    "thresholds are kept away from cell centres by >= 1e-7 relative (decisive)",
]


def plan(tier):
    return {"shards": 16, "timeout": 1500 if tier == "quick" else 5 * 3600,
            "required_monitors": ["row-multiset", "variable-values", "owner-files-opened", "cpu-list-exact",
                                  "hilbert-structure", "bound-key-roundtrip"],
            "required_tags": ["box-smaller-than-leaf", "preselection-active", "touches-domain-edge",
                              "non-hilbert-or-lowdim", "with-value-predicate"]}


def cases(ctx):
    out = []
    for b in range(1, 6):
        nslab = 1 if b < 4 else (4 if b == 4 else 16)
        for s in range(nslab):
            out.append({"id": f"hil-b{b}-s{s}", "kind": "hilbert", "bits": b, "slab": s, "nslab": nslab})
    out.append({"id": "boundkey", "kind": "boundkey"})
    n = 400 if ctx.tier == "quick" else 30000
    for i in range(60):
        out.append({"id": f"fix{i}", "kind": "load", "i": i, "fixed": True})
    # deterministic corpus aimed at one mechanism: a box smaller than a coarse leaf, many small CPU domains
    for i in range(120 if ctx.tier == "quick" else 4000):
        out.append({"id": f"adv{i}", "kind": "load", "i": i, "fixed": True, "adversarial": True})
    # ... and boxes exactly one coarsest-leaf cell wide, misaligned with the coarse grid, on outputs whose lengths are
    # exact in floating point (boxlen = unit_l = 1): the width at which the search cubes are half an oct wide
    for i in range(300 if ctx.tier == "quick" else 6000):
        out.append({"id": f"cc{i}", "kind": "load", "i": 100000 + i, "fixed": True, "adversarial": True, "mode": "coarse-cell"})
    for i in range(n):
        out.append({"id": f"r{i}", "kind": "load", "i": i})
    m = 60 if ctx.tier == "quick" else 3000
    for i in range(m):
        out.append({"id": f"cpu{i}", "kind": "cpulist", "i": i})
    return out


def run_case(case, ctx, res):
    return {"hilbert": _hilbert, "boundkey": _boundkey, "load": _load, "cpulist": _cpulist}[case["kind"]](case, ctx, res)


# ----------------------------------------------------------------------------- structure of the curve
def _hilbert(case, ctx, res):
    from osyris.io import hilbert as oh
    b, s, ns = case["bits"], case["slab"], case["nslab"]
    n = 2 ** b
    xs = [x for x in range(n) if x % ns == s]
    pts = np.array(list(itertools.product(xs, range(n), range(n))), dtype=np.int64)
    ref = hilbert3d(pts[:, 0], pts[:, 1], pts[:, 2], b)
    got = np.array([oh._hilbert3d(int(x), int(y), int(z), b) for x, y, z in pts], dtype=np.int64)
    res.count("hilbert-structure", len(pts))
    res.nontrivial = True
    res.digest_src = {"bits": b, "slab": s}
    res.sample = {"bit_length": b, "slab": s, "points": len(pts)}
    if np.any(got != ref):
        i = int(np.argwhere(got != ref)[0][0])
        res.violate("hilbert-key-differs", f"bit_length {b}: key{tuple(pts[i])} = {got[i]}, reference {int(ref[i])}")
        return
    if np.any(got < 0) or np.any(got >= 8 ** b) or len(set(got.tolist())) != len(got):
        res.violate("hilbert-not-bijective", f"bit_length {b}: keys are not distinct values in [0, 8**b)")
    # prefix property: the key of the parent cube is the key with the last octal digit dropped
    if b > 1:
        par = np.array([oh._hilbert3d(int(x) >> 1, int(y) >> 1, int(z) >> 1, b - 1) for x, y, z in pts[:: max(1, len(pts) // 2000)]])
        if np.any(par != (got[:: max(1, len(pts) // 2000)] >> 3)):
            res.violate("hilbert-prefix-property", f"bit_length {b}: key>>3 differs from the parent cube's key")
    if ns == 1:
        order = np.argsort(got)
        step = np.abs(np.diff(pts[order], axis=0)).sum(axis=1)
        if np.any(step != 1):
            res.violate("hilbert-not-continuous", f"bit_length {b}: consecutive keys are not face neighbours")


def _boundkey(case, ctx, res):
    from osyris.io import hilbert as oh
    rng = ctx.rng("boundkey")
    res.nontrivial = True
    for trial in range(40):
        ncpu = int(rng.integers(1, 40))
        bits = int(rng.integers(2, 8))
        total = 2 ** (3 * bits)
        cuts = sorted(int(rng.integers(0, total)) for _ in range(ncpu - 1))
        bk = [0] + cuts + [total]
        path = os.path.join(ctx.scratch("bk-"), "info.txt")
        with open(path, "w") as f:
            f.write("ncpu        = %10d\nordering type=hilbert\n   DOMAIN   ind_min                 ind_max\n" % ncpu)
            for c in range(ncpu):
                f.write(f"{c + 1:8d} {float(bk[c]):23.15E} {float(bk[c + 1]):23.15E}\n")
        res.count("bound-key-roundtrip")
        o = attempt(oh._read_bound_key, path, ncpu)
        shutil.rmtree(os.path.dirname(path), ignore_errors=True)
        if not o.ok or list(o.value) != bk:
            res.violate("bound-key-parse", f"DOMAIN table of {ncpu} CPUs read back as {str(o.value if o.ok else o.exc)[:200]}, "
                        f"written {bk[:6]}...")
            return
    res.sample = {"bound_key_tables": 40}
    res.digest_src = {"boundkey": 1}


# ----------------------------------------------------------------------------- selective loads
def make_spec(rng, lowdim=False):
    ndim = int(rng.choice([1, 2])) if lowdim else 3
    spec = rs.random_spec(rng, ndim=ndim, ncpu=int(rng.choice([1, 2, 4, 8, 13, 24, 32])),
                          max_octs=int(rng.choice([100, 400, 900])))
    spec["levelmin"] = int(rng.choice([1, 2, 3, 3, 4, 4])) if ndim == 3 else int(rng.integers(1, 5))
    spec["levelmax"] = min(7, spec["levelmin"] + int(rng.integers(1, 4)))
    spec["max_octs"] = int(rng.choice([700, 1200, 2000])) if spec["levelmin"] >= 4 else spec["max_octs"]
    spec["ordering"] = "hilbert" if (not lowdim or rng.random() < 0.5) else str(rng.choice(["planar", "angular"]))
    spec["style"] = str(rng.choice(["random", "random", "needle", "uniform"]))
    spec["nboundary"], spec["nxyz"] = 0, [1, 1, 1]
    if rng.random() < 0.2:
        spec["nboundary"] = 2
        spec["nxyz"][int(rng.integers(0, ndim))] = 3
    spec["grav"], spec["rt"] = False, None
    spec["hydro"] = ["density", "velocity_x", "pressure"] if ndim == 1 else (
        ["density", "velocity_x", "velocity_y", "pressure"] if ndim == 2 else
        ["density", "velocity_x", "velocity_y", "velocity_z", "pressure"])
    return spec


def make_box(rng, model, exp, res, adversarial=False, force_mode=None):
    """interval predicates on a random subset of axes, centred on a leaf centre"""
    sp = model.spec
    ndim = sp["ndim"]
    boxcm = sp["boxlen"] * sp["unit_l"]
    h = 0.5 / 2 ** sp["levelmax"]                 # half a finest cell, box units
    j = int(rng.integers(0, len(exp["level"])))
    # prefer coarse leaves: that is where a small box is smaller than the leaf it selects
    coarse = np.argwhere(exp["level"] == exp["level"].min()).ravel()
    if rng.random() < 0.6:
        j = int(coarse[int(rng.integers(0, len(coarse)))])
    c = exp["pos"][j]
    axes = [d for d in range(ndim) if rng.random() < 0.75] or [int(rng.integers(0, ndim))]
    size_mode = rng.choice(["quarter-finest", "finest", "few-finest", "leaf", "large", "whole"])
    if adversarial:
        j = int(coarse[int(rng.integers(0, len(coarse)))])
        c = exp["pos"][j]
        axes = list(range(ndim))
        size_mode = rng.choice(["quarter-finest", "finest", "one-finest", "one-finest", "coarse-cell", "coarse-cell"])
        if force_mode:
            size_mode = force_mode
    preds = []
    small = True
    for d in axes:
        if size_mode in ("quarter-finest", "one-finest", "coarse-cell"):
            w = 0.25 * 2 * h
        elif size_mode == "finest":
            w = 2 * h * float(rng.uniform(0.6, 1.2))
        elif size_mode == "few-finest":
            w = 2 * h * float(rng.uniform(1.5, 6))
        elif size_mode == "leaf":
            w = float(exp["dx"][j]) * float(rng.uniform(0.5, 1.5))
        elif size_mode == "large":
            w = float(rng.uniform(0.2, 0.7))
        else:
            w = 2.5
        if w >= exp["dx"][j]:
            small = False
        # the interval must contain the leaf centre c[d] and a finest-level centre (c +- h when the leaf is
        # coarser than levelmax, c itself otherwise)
        side = 1 if rng.random() < 0.5 else -1
        is_finest = exp["level"][j] == sp["levelmax"]
        need = 0.0 if is_finest else h * 1.02
        up = max(w * float(rng.uniform(0.3, 0.7)), need if side > 0 else 0.0) + 1e-6 * h
        dn = max(w - up, need if side < 0 else 0.0) + 1e-6 * h
        lo, hi = c[d] - dn, c[d] + up
        if size_mode == "coarse-cell":
            # an interval exactly one coarsest-leaf cell wide, not aligned with the coarse grid (offset by a whole number
            # of finest cells plus a little, so that no threshold coincides with a cell centre)
            dxc = 0.5 ** sp["levelmin"]
            nfine = int(round(dxc / (2 * h)))
            k = int(rng.integers(0, nfine))
            lo = np.floor(c[d] / dxc) * dxc + (k - nfine // 2) * 2 * h + 0.013 * h
            lo = min(max(lo, -0.25), 1.0)
            hi = lo + dxc
        if size_mode == "one-finest" and not is_finest:
            # the leaf's centre at one end of the interval and exactly one finest-level centre (c +- h) inside it
            lo, hi = (c[d] - 0.05 * h, c[d] + 1.02 * h) if side > 0 else (c[d] - 1.02 * h, c[d] + 0.05 * h)
        edge = rng.random() if not adversarial else 1.0
        if edge < 0.1:
            lo = 0.0 if rng.random() < 0.5 else -0.3
            res.tag("touches-domain-edge")
        elif edge < 0.2:
            hi = 1.0 if rng.random() < 0.5 else 1.4
            res.tag("touches-domain-edge")
        op = "between" if rng.random() < 0.5 else "between-closed"
        preds.append({"var": "position_" + "xyz"[d], "op": op, "value": [lo * boxcm, hi * boxcm], "unit": "cm"})
    if small and len(axes) == ndim:
        res.tag("box-smaller-than-leaf")
    return preds, size_mode


def _load(case, ctx, res):
    osy = ctx.osyris
    rng = (np.random.default_rng(np.random.SeedSequence([20240204, 4, case["i"]])) if case.get("fixed")
           else ctx.rng(case["i"]))
    lowdim = (case["i"] % 10 == 9) if case.get("fixed") else rng.random() < 0.12
    adv = bool(case.get("adversarial"))
    if adv:
        rng = np.random.default_rng(np.random.SeedSequence([20240204, 44, case["i"]]))
        lowdim = False
    spec = make_spec(rng, lowdim)
    if adv:
        spec.update(ncpu=int(rng.choice([8, 13, 24, 32, 32, 64])), levelmin=int(rng.choice([1, 2, 2, 3])), nboundary=0, nxyz=[1, 1, 1],
                    ordering="hilbert", bound_style=str(rng.choice(["octs", "equal", "tiny", "random"])),
                    style=str(rng.choice(["needle", "random"])), refine_prob=float(rng.uniform(0.1, 0.4)), max_octs=300)
        spec["levelmax"] = spec["levelmin"] + int(rng.integers(2, 4))
        if case.get("mode") == "coarse-cell":
            spec.update(boxlen=1.0, unit_l=1.0, levelmin=int(rng.choice([2, 2, 3])), ncpu=int(rng.choice([12, 24, 32, 48, 64])),
                        bound_style=str(rng.choice(["equal", "random", "octs"])))
            spec["levelmax"] = spec["levelmin"] + int(rng.integers(1, 3))
    model = rs.build(spec)
    preds0 = []
    L = None
    if rng.random() < 0.25 and not adv:
        k = int(rng.integers(1, spec["levelmax"] + 1))
        preds0.append({"var": "level", "op": "<=", "value": k})
        L = sel.level_cap(preds0, spec["levelmax"])
    exp_all = rs.expected_mesh(model, lmax=L)
    box, size_mode = make_box(rng, model, exp_all, res, adversarial=adv, force_mode=case.get("mode"))
    preds = preds0 + box
    if rng.random() < 0.3 and not adv:
        col = sel.model_column(model, exp_all, "density")
        thr = float(np.sort(col)[int(rng.integers(0, len(col)))]) * (1 + 1e-3)
        preds.append({"var": "density", "op": ">", "value": thr, "unit": "g/cm**3"})
        res.tag("with-value-predicate")
    if not sel.decisive(model, exp_all, preds, rel=1e-8):
        res.inconclusive.append("threshold within rounding of a cell centre")
        return
    mask = sel.model_mask(model, exp_all, preds)
    exp = sel.filter_exp(exp_all, mask)
    if spec["ordering"] != "hilbert" or spec["ndim"] < 3:
        res.tag("non-hilbert-or-lowdim")
    res.digest_src = {"spec": iom.spec_brief(spec), "preds": preds}
    res.sample = {"spec": {k: spec[k] for k in ("ndim", "ncpu", "levelmin", "levelmax", "ordering", "bound_style", "style")},
                  "predicates": preds, "box": str(size_mode), "expected_rows": int(mask.sum()), "leaves": int(len(mask))}
    path = ctx.scratch("c04-")
    try:
        rs.write(model, path)
        select = {"mesh": sel.to_select(osy, preds)}
        out, stdout, opened = iom.load(osy, path, spec["nout"], select=select)
        what = f"load(select={[(p['var'], p['op']) for p in preds]}, box={size_mode})"
        got_cpus = iom.cpus_opened(opened, "amr")
        if len(got_cpus) < spec["ncpu"]:
            res.tag("preselection-active")
        res.nontrivial = bool(mask.any() and not mask.all() and len(got_cpus) < spec["ncpu"])
        if not mask.any():
            res.count("empty-selection")
            if out.ok and "mesh" in out.value.keys() and out.value["mesh"].shape and out.value["mesh"].shape[0] > 0:
                res.violate("rows-wrong", f"{what}: model selects no cell but {out.value['mesh'].shape[0]} rows came back",
                            spec=iom.spec_brief(spec), preds=preds)
            return
        if not out.ok:
            res.violate("load-raised", f"{what} {out.describe()}", spec=iom.spec_brief(spec), preds=preds, tb=out.tb)
            return
        ds = out.value
        # the statement about the trace: no file holding a qualifying cell may be dropped
        res.count("owner-files-opened")
        owners = set(int(c) for c in exp["cpu"])
        dropped = owners - got_cpus
        if dropped:
            lv = exp["level"][np.isin(exp["cpu"], list(dropped))]
            res.violate("hilbert-preselection-dropped-file",
                        f"{what}: CPU files {sorted(dropped)} hold {len(lv)} qualifying leaves (levels {sorted(set(lv.tolist()))}) "
                        f"but were never opened (opened {sorted(got_cpus)} of {spec['ncpu']}; levelmin {spec['levelmin']}, "
                        f"levelmax {spec['levelmax']})", spec=iom.spec_brief(spec), preds=preds)
            return
        if "mesh" not in ds.keys() or not ds["mesh"].shape:
            res.violate("rows-missing", f"{what}: no mesh rows returned, model selects {int(mask.sum())}",
                        spec=iom.spec_brief(spec), preds=preds)
            return
        mesh = ds["mesh"]
        iom.check_mesh(res, osy, model, mesh, ds.meta, exp, what=what)
        iom.check_meta(res, osy, model, ds, mesh.shape[0], what=what)
    finally:
        shutil.rmtree(path, ignore_errors=True)


def _cpulist(case, ctx, res):
    osy = ctx.osyris
    rng = ctx.rng("cpulist", case["i"])
    spec = make_spec(rng, lowdim=rng.random() < 0.3)
    spec["ncpu"] = int(rng.choice([2, 3, 5, 8, 13]))
    model = rs.build(spec)
    k = int(rng.integers(1, spec["ncpu"] + 1))
    cl = sorted(int(c) for c in rng.choice(np.arange(1, spec["ncpu"] + 1), size=k, replace=False))
    if rng.random() < 0.3:
        cl = list(rng.permutation(cl))
        cl = [int(c) for c in cl]
    exp_all = rs.expected_mesh(model)
    mask = np.isin(exp_all["cpu"], cl)
    exp = sel.filter_exp(exp_all, mask)
    res.digest_src = {"spec": iom.spec_brief(spec), "cpu_list": cl}
    res.sample = {"ncpu": spec["ncpu"], "cpu_list": cl, "expected_rows": int(mask.sum()), "leaves": int(len(mask))}
    res.nontrivial = bool(mask.any() and not mask.all())
    path = ctx.scratch("c04c-")
    try:
        rs.write(model, path)
        out, _, opened = iom.load(osy, path, spec["nout"], cpu_list=cl)
        res.count("cpu-list-exact")
        what = f"load(cpu_list={cl})"
        if not mask.any():
            return
        if not out.ok:
            res.violate("load-raised", f"{what} {out.describe()}", spec=iom.spec_brief(spec), tb=out.tb)
            return
        mesh = out.value["mesh"]
        iom.check_mesh(res, osy, model, mesh, out.value.meta, exp, what=what)
    finally:
        shutil.rmtree(path, ignore_errors=True)
