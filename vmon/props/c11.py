"""C11 - thick maps reduce the sampled column and scale units consistently.

Oracle: the point-location oracle applied to every depth sample z_k = -dz/2 + (k+1/2) dz/nz of every pixel;
the pixel must equal numpy's reduction of that column (NaN = missing sample), times the depth step for
sum/nansum, masked exactly where the reduction is NaN; the layer unit is multiplied by the length unit for
sum/nansum only; nz = round(dz / mean pixel size) unless resolution['z'] is given.
"""
import numpy as np

from .. import maps, mesh_oracle as mo, sched

TITLE = "Thick maps reduce the sampled column and scale units consistently"
RULE = (
    "fixed corpus: dz/cell-size ratio 2**-5 .. 2**3 x eight reductions x direction mode; then case i -> "
    "rng(seed, C11, i): meshes/origins/directions as C03, dz from one pixel to the domain size and 'deep' columns of 3..60 x max(nx, ny) pixels behind 1..6 pixel "
    "wide windows, int and dict "
    "resolutions (with and without 'z'), dx/dz in different length units; schedule cases on the 3-D sampling "
    "kernel.  Non-trivial = the slab cuts >=2 cells along depth or is thinner than the cell containing it, and "
    ">=1 pixel has a complete unambiguous column; distinct = distinct (mesh, request)."
)
ASSUMPTIONS = ["dz >= one pixel (the statement's range); columns of more than max(40, min(400, 30000/(nx*ny))) samples are "
               "requested through resolution['z'] to bound the oracle's cost (so deep columns with the default depth "
               "resolution are seen through coarse windows: up to 400 samples behind a 1..8 pixel wide window)", "vector layers of thick maps are not judged separately"]


def plan(tier):
    return {"shards": 16, "timeout": 1500 if tier == "quick" else 6 * 3600,
            "shard_env": sched.shard_env,
            "required_monitors": ["pixels-judged", "column-samples", "schedule-runs", "boundscheck-runs"],
            "required_tags": ["slab-thinner-than-cell", "slab-thicker-than-cell", "op-sum", "op-mean", "op-min",
                              "op-max", "op-nansum", "op-nanmean", "op-nanmin", "op-nanmax", "z-resolution-given",
                              "z-resolution-default", "oblique", "deep-column-default-z", "operation-set-on-the-layer"]}


def cases(ctx):
    out = []
    k = 0
    for e in (-5, -4, -3, -2, -1, 0, 1, 2, 3):
        for op in maps.OPS:
            dm = ["letter", "vector", "triple", "vector-zero"][k % 4]
            out.append({"id": f"fix{k}", "fixed": {"dz_ratio_exp": e, "operation": op, "dir_mode": dm,
                                                    "layers": [["tag"], ["temp", "tag"]][k % 2]}, "i": k})
            k += 1
    n = 150 if ctx.tier == "quick" else 8000
    out += [{"id": f"r{i}", "i": i} for i in range(n)]
    ns = 8 if ctx.tier == "quick" else 80
    out += [{"id": f"s{i}", "i": i, "sched": True} for i in range(ns)]
    return out


def run_case(case, ctx, res):
    osy = ctx.osyris
    if case.get("sched"):
        return sched.run_map_kernel_case(case, ctx, res, thick=True)
    if "fixed" in case:
        rng = np.random.default_rng(np.random.SeedSequence([20240211, 11, case["i"]]))
        fixed = dict(case["fixed"])
        mesh = mo.make_mesh(rng, ndim=3 if case["i"] % 5 else 2, max_cells=1200)
        if mesh["ndim"] == 2:
            fixed.pop("dir_mode", None)
    else:
        rng = ctx.rng(case["i"])
        fixed = None
        mesh = mo.make_mesh(rng, max_cells=1500)
    req = maps.draw_request(rng, mesh, thick=True, fixed=fixed)
    # bound the oracle's work (pixels x depth samples x cells) without leaving the statement's range
    r = req["resolution"]
    r = {"x": r, "y": r} if isinstance(r, int) else dict(r)
    for k in ("x", "y"):
        if r.get(k, 256) > 40:
            r[k] = 24
    px = 0.5 * (req["dx"] / r["x"] + (req["dy"] if req.get("dy") is not None else req["dx"]) / r["y"])
    if req["dz"] < px:
        req["dz"] = px * 1.01
    if "z" not in r and req["dz"] / px > max(40, min(400, 30000 // max(1, r["x"] * r["y"]))):
        r["z"] = 16
    if "z" not in r and req["dz"] / px > 4.5 * max(r["x"], r["y"]):
        res.tag("deep-column-default-z")
    req["resolution"] = r if ("z" in r or r["x"] != r["y"] or rng.random() < 0.5) else r["x"]
    res.digest_src = {"mesh": [mesh["style"], mesh["ndim"], len(mesh["pos"])], "req": req}
    info = maps.run_map(osy, rng, res, mesh, req, thick=True)
    typical = float(np.median(mesh["size"]))
    res.tag("op-" + req["operation"])
    if req.get("op_on_layer"):
        res.tag("operation-set-on-the-layer")
    res.tag("slab-thinner-than-cell" if req["dz"] < typical else "slab-thicker-than-cell")
    res.tag("z-resolution-given" if isinstance(req["resolution"], dict) and "z" in req["resolution"] else "z-resolution-default")
    if req.get("dir_mode") in ("vector", "vector-zero"):
        res.tag("oblique")
    res.nontrivial = True
    res.sample = {"mesh": {"style": mesh["style"], "ndim": mesh["ndim"], "cells": len(mesh["pos"])},
                  "request": {k: req.get(k) for k in ("direction", "dx", "dz", "dz_unit", "operation", "resolution", "origin_mode", "layers")},
                  "observed": info}
