"""C08 - unit conversion preserves the physical quantity; defined units have true values."""
import itertools
import json
import os
import subprocess
import sys
import tempfile

import numpy as np

from .. import boot, gen
from ..snapshot import diff, fp
from ..unitsref import (ALIASES, FAMILIES, FAMILY_NAMES, Q, REFERENCE_CGS, REFERENCE_RTOL,
                        compare_quantity, dims_close, rtol_for, scale_dims)
from ..util import attempt

TITLE = "Unit conversion preserves the physical quantity; defined units have true values"
RULE = (
    "exhaustive over ordered pairs of catalogue units within each dimension family (and all cross-family "
    "pairs for the must-raise clause) x dtypes x shapes x {Array, 1/2/3-component Vector}: a.to(u) vs the "
    "quantity oracle, a unchanged, round trip, chains a->b->c vs a->c (random triples); every unit osyris "
    "defines vs an independent reference table (rtol 5e-4) read from a fresh-$HOME registry; spellings and "
    "aliases; user-config override of each of the three hooks in a subprocess.  Non-trivial = source and "
    "target units differ; distinct = distinct (kind, units, dtype, shape)."
)
ASSUMPTIONS = [
    "reference values: IAU 2015 nominal solar/planetary values, a_r = 4 sigma / c (CODATA); tolerance 5e-4",
    "pint's reduction of standard units (m, pc, yr, eV ...) to CGS is correct",
]


def plan(tier):
    return {"shards": 16, "timeout": 900 if tier == "quick" else 4 * 3600,
            "required_monitors": ["to-oracle", "to-must-raise", "source-unchanged", "round-trip",
                                  "definition-reference", "vector-to", "chain", "spelling",
                                  "config-override", "conversion-history"],
            "required_tags": ["extreme-magnitudes"]}


def cases(ctx):
    out = []
    for name in sorted(REFERENCE_CGS):
        out.append({"id": f"def-{name}", "kind": "definition", "name": name})
    out.append({"id": "spellings", "kind": "spellings"})
    for hook in ("configure_constants", "configure_units", "additional_variables", "none"):
        out.append({"id": f"config-{hook}", "kind": "config", "hook": hook})
    dts = ["float64", "float32"] if ctx.tier == "quick" else gen.DTYPES
    k = 0
    for fam in FAMILY_NAMES:
        for u1, u2 in itertools.product(FAMILIES[fam], repeat=2):
            for dt in dts:
                out.append({"id": f"to-{k}", "kind": "to", "u1": u1, "u2": u2, "dtype": dt, "i": k})
                k += 1
    allu = [(f, u) for f in FAMILY_NAMES for u in FAMILIES[f]]
    k = 0
    for (f1, u1), (f2, u2) in itertools.product(allu, repeat=2):
        if f1 != f2:
            out.append({"id": f"inc-{k}", "kind": "incompatible", "u1": u1, "u2": u2, "i": k})
            k += 1
    n = 400 if ctx.tier == "quick" else 20000
    for i in range(n):
        out.append({"id": f"chain-{i}", "kind": "chain", "i": i})
    for i in range(n):
        out.append({"id": f"vec-{i}", "kind": "vector", "i": i})
    for i in range(n // 2):
        out.append({"id": f"hist-{i}", "kind": "history", "i": i})
    out.append({"id": "contracts-repo-tests", "kind": "contracts", "i": 0})
    return out


def run_case(case, ctx, res):
    if case.get("kind") == "contracts":
        from .. import contracts
        return contracts.judge_repo_tests(res, ctx, ["test_array.py", "test_vector.py"], ("Array.to",))
    return globals()["_" + case["kind"]](case, ctx, res)


def _definition(case, ctx, res):
    osy = ctx.osyris
    name = case["name"]
    ref, dims = REFERENCE_CGS[name]
    res.count("definition-reference")
    res.nontrivial = True
    out = attempt(lambda: scale_dims(osy.units(name)))
    res.sample = {"unit": name, "reference_cgs": ref}
    if not out.ok:
        res.violate("unit-undefined", f"osyris.units({name!r}) {out.describe()}")
        return
    s, d = out.value
    res.sample["live_cgs"] = s
    if not dims_close(d, tuple(dims.items())):
        res.violate("definition-wrong-dimension", f"{name}: dimension {dict(d)} != {dims}")
    elif abs(s - ref) > REFERENCE_RTOL * ref:
        res.violate("definition-wrong-value", f"{name} = {s!r} CGS, accepted value {ref!r} (rtol {REFERENCE_RTOL})")
    for alias in ALIASES.get(name, []):
        res.count("spelling")
        o2 = attempt(lambda: osy.units(alias))
        if not o2.ok:
            res.violate("alias-missing", f"osyris.units({alias!r}) {o2.describe()}")
        elif o2.value != osy.units(name) or scale_dims(o2.value) != (s, d):
            res.violate("alias-differs", f"units({alias!r}) = {o2.value!s} differs from units({name!r})")
    # conversion through Array.to to the CGS unit agrees too
    tgt = {"M": "g", "R": "cm", "L": "erg/s", "a": "erg/cm**3/K**4"}[name[0]]
    o3 = attempt(lambda: osy.Array(values=np.array([1.0, 2.0]), unit=name).to(tgt))
    if not o3.ok:
        res.violate("raised-unexpectedly", f"Array(unit={name!r}).to({tgt!r}) {o3.describe()}")
    else:
        v = np.asarray(o3.value.values)
        if not np.allclose(v, [ref, 2 * ref], rtol=REFERENCE_RTOL, atol=0):
            res.violate("definition-wrong-value", f"Array([1,2],{name!r}).to({tgt!r}) = {v.tolist()}, accepted {ref!r}")


def _spellings(case, ctx, res):
    osy = ctx.osyris
    groups = [
        ["m", "meter", "metre"], ["cm", "centimeter"], ["km", "kilometer"], ["g", "gram"], ["kg", "kilogram"],
        ["s", "second", "sec"], ["yr", "year"], ["K", "kelvin"], ["erg"], ["J", "joule"], ["au", "astronomical_unit"],
        ["pc", "parsec"], ["G", "gauss"], ["", None, "dimensionless"], ["km/s", "km / s", "km*s**-1", "km s^-1"],
        ["g/cm**3", "g cm**-3", "g / cm^3"],
    ]
    res.nontrivial = True
    res.sample = {"spelling_groups": groups[:4]}
    for grp in groups:
        ref = attempt(lambda: osy.units(grp[0]))
        if not ref.ok:
            res.violate("raised-unexpectedly", f"units({grp[0]!r}) {ref.describe()}")
            continue
        for sp in grp:
            res.count("spelling")
            o = attempt(lambda: osy.units(sp))
            if not o.ok:
                res.violate("spelling-rejected", f"units({sp!r}) {o.describe()}")
            elif o.value != ref.value:
                res.violate("spelling-differs", f"units({sp!r}) = {o.value!s} != units({grp[0]!r}) = {ref.value!s}")
        # Unit passthrough returns an equal unit
        res.count("spelling")
        o = attempt(lambda: osy.units(ref.value))
        if not o.ok or o.value != ref.value:
            res.violate("unit-passthrough", f"units(Unit) for {grp[0]!r}: {o.describe()}")
    # near-identical spellings of DIFFERENT units, looked up in both orders within one process
    near = [("m s", "m*s", "ms"), ("m G", "m*G", "mG"), ("k g", None, "kg"), ("c m", None, "cm"), ("m m", "m*m", "mm"),
            ("g cm**-3", "g/cm**3", "gcm**-3"), ("k m", None, "km")]
    rng = ctx.rng("spelling-order")
    order = list(rng.permutation(len(near) * 2))
    seen = {}
    for idx in order:
        a, canon, b = near[idx // 2]
        sp = a if idx % 2 == 0 else b
        seen[sp] = attempt(lambda: osy.units(sp))
    for a, canon, b in near:
        res.count("spelling")
        ua, ub = seen[a], seen[b]
        if canon is not None:
            ref = attempt(lambda: osy.units(canon))
            if ref.ok and (not ua.ok or ua.value != ref.value):
                res.violate("spelling-differs", f"units({a!r}) is {ua.value if ua.ok else ua.describe()!s}, not units({canon!r}) = "
                            f"{ref.value!s} (after {b!r} had possibly been looked up)")
        if ua.ok and ub.ok and ua.value == ub.value and canon is not None:
            res.violate("distinct-units-confused", f"units({a!r}) == units({b!r}) = {ua.value!s}")
        if ub.ok:
            again = attempt(lambda: osy.units(b))
            if not again.ok or again.value != ub.value or scale_dims(again.value) != scale_dims(osy.units(b.replace(" ", ""))):
                res.violate("spelling-differs", f"units({b!r}) not stable across lookups")
    # a Quantity is refused (documented)
    o = attempt(lambda: osy.units(1.0 * osy.units("m")))
    if o.ok:
        res.violate("quantity-accepted-as-unit", "units(Quantity) returned " + str(o.value))


CONFIG_PROBE = r"""
import json, sys
import osyris
out = {}
def has(u):
    try:
        osyris.units(u); return True
    except Exception:
        return False
out["has_verifunit"] = has("verif_unit")
out["has_M_sun"] = has("M_sun")
lib = osyris.config.configure_units(osyris.units, 2.0, 3.0, 4.0)
out["density_mag"] = float(lib["density"].magnitude) if hasattr(lib.get("density", None), "magnitude") else None
out["lib_keys"] = sorted(lib.keys())[:60]
out["marker"] = lib.get("verif_marker")
class D(dict): pass
ds = {"mesh": {"density": 1}}
try:
    osyris.config.additional_variables(ds)
except Exception as e:
    out["addvar_exc"] = type(e).__name__
out["addvar_marker"] = ds.get("verif_addvar")
print("PROBE" + json.dumps(out))
"""


def _config(case, ctx, res):
    """user config overriding one hook is honoured, the other two fall back to the defaults"""
    hook = case["hook"]
    res.count("config-override")
    res.nontrivial = hook != "none"
    home = tempfile.mkdtemp(prefix="cfghome-", dir=ctx.work)
    os.makedirs(os.path.join(home, ".osyris"))
    body = {
        "configure_constants": "def configure_constants(units):\n    units.define('verif_unit = 3 * cm')\n",
        "configure_units": "def configure_units(units, unit_d, unit_l, unit_t):\n    return {'verif_marker': 42}\n",
        "additional_variables": "def additional_variables(data):\n    data['verif_addvar'] = 7\n",
        "none": "# empty user configuration\n",
    }[hook]
    with open(os.path.join(home, ".osyris", "config_osyris.py"), "w") as f:
        f.write(body)
    env = boot.worker_env(home)
    r = subprocess.run([boot.PYTHON, "-B", "-c", CONFIG_PROBE], env=env, capture_output=True, text=True,
                       timeout=300)
    line = [ln for ln in r.stdout.splitlines() if ln.startswith("PROBE")]
    res.sample = {"hook_overridden": hook}
    if r.returncode != 0 or not line:
        res.violate("config-import-failed", f"osyris failed with a user config overriding {hook}: "
                    + (r.stderr or r.stdout)[-500:])
        return
    got = json.loads(line[0][5:])
    res.sample["observed"] = {k: got[k] for k in ("has_verifunit", "has_M_sun", "marker", "addvar_marker")}
    exp = {
        "has_verifunit": hook == "configure_constants",
        "has_M_sun": hook != "configure_constants",
        "marker": 42 if hook == "configure_units" else None,
        "addvar_marker": 7 if hook == "additional_variables" else None,
    }
    for k, v in exp.items():
        if got.get(k) != v:
            res.violate("config-override-not-honoured", f"override of {hook}: {k} = {got.get(k)!r}, expected {v!r}")
    if hook != "configure_units" and got.get("density_mag") != 2.0:
        res.violate("config-fallback-broken", f"override of {hook}: default configure_units not in effect "
                    f"(density factor {got.get('density_mag')!r})")


def _mk(osy, rng, dtype, shape, unit, positive=False, targets=()):
    v = gen.draw_values(rng, shape, dtype, positive=positive)
    if np.dtype(dtype) == np.float32:
        # the converted numbers must be representable in float32 (the statement is about
        # quantities, not about overflow of a narrow dtype): otherwise shrink to unit scale
        s1 = scale_dims(osy.units(unit))[0]
        for t in targets:
            ratio = s1 / scale_dims(osy.units(t))[0]
            if not (1e-30 < ratio < 1e30):
                v = gen.draw_values(rng, shape, "float64", positive=positive)
                break
    return v, osy.Array(values=v.copy(), unit=unit, name="src")


def _to(case, ctx, res):
    osy = ctx.osyris
    rng = ctx.rng("to", case["i"])
    u1, u2, dt = case["u1"], case["u2"], case["dtype"]
    shape = gen.draw_shape(rng)
    v, a = _mk(osy, rng, dt, shape, u1, targets=(u2,))
    dt = str(v.dtype)
    extreme = None
    if np.dtype(dt).kind == "f" and case["i"] % 3 == 0 and v.size:
        # magnitudes near either end of the dtype's range, chosen so that the numbers before AND after the
        # conversion are representable with four decades to spare: only a detour (through base units, through
        # another dtype) can overflow or underflow
        fi = np.finfo(np.dtype(dt))
        ratio = scale_dims(osy.units(u1))[0] / scale_dims(osy.units(u2))[0]
        top = (case["i"] // 3) % 2 == 0
        mag = float(np.max(np.abs(v))) or 1.0
        with np.errstate(all="ignore"):
            if top:
                f = (float(fi.max) / 1e4) / (mag * max(1.0, ratio))
            else:
                nz = np.abs(v[v != 0])
                f = (float(fi.tiny) * 1e4) / ((float(nz.min()) if nz.size else 1.0) * min(1.0, ratio))
        if np.isfinite(f) and f > 0:
            v = (v.astype(np.longdouble) * np.longdouble(f)).astype(dt)
            if np.all(np.isfinite(v)):
                a = osy.Array(values=v.copy(), unit=u1, name="src")
                extreme = "top" if top else "bottom"
                res.tag("extreme-magnitudes")
    sig = {"u1": u1, "u2": u2, "dtype": dt, "shape": list(shape), "magnitudes": extreme}
    res.digest_src = sig
    res.sample = dict(sig, values=v)
    res.nontrivial = osy.units(u1) != osy.units(u2)
    before = fp(a)
    out = attempt(lambda: a.to(u2))
    res.count("source-unchanged")
    if fp(a) != before:
        res.violate("source-mutated", f"a.to({u2!r}) modified a: {diff(before, fp(a))}", sig=sig)
    res.count("to-oracle")
    if not out.ok:
        res.violate("raised-unexpectedly", f"Array({dt},{u1!r}).to({u2!r}) {out.describe()}", sig=sig, tb=out.tb)
        return
    r = out.value
    if type(r).__name__ != "Array":
        res.violate("wrong-type", f"to() returned {type(r).__name__}", sig=sig)
        return
    if scale_dims(r.unit) != scale_dims(osy.units(u2)):
        res.violate("wrong-target-unit", f"to({u2!r}) result labelled {r.unit!s}", sig=sig)
    rt = rtol_for(dt)
    msg = compare_quantity(r.values, r.unit, Q.of(v, osy.units(u1)), rt)
    if msg:
        mech = "wrong-value"
        s1, s2 = scale_dims(osy.units(u1))[0], scale_dims(osy.units(u2))[0]
        with np.errstate(all="ignore"):
            if np.allclose(np.asarray(r.values, float), np.asarray(v, float) * (s2 / s1), rtol=1e-4) and s1 != s2:
                mech = "ratio-inverted"
            elif np.allclose(np.asarray(r.values, float), np.asarray(v, float), rtol=1e-6) and s1 != s2:
                mech = "values-not-scaled"
        res.violate(mech, f"Array({dt},{u1!r}).to({u2!r}): {msg}", sig=sig)
        return
    # round trip
    res.count("round-trip")
    back = attempt(lambda: r.to(u1))
    if not back.ok:
        res.violate("raised-unexpectedly", f"round trip {u2!r}->{u1!r} {back.describe()}", sig=sig)
    else:
        bv = np.asarray(back.value.values, dtype=np.longdouble)
        vv = np.asarray(v, dtype=np.longdouble)
        if bv.shape != vv.shape or np.any(np.abs(bv - vv) > 2 * rt * np.abs(vv)):
            res.violate("round-trip-off", f"{u1!r}->{u2!r}->{u1!r}: {np.asarray(back.value.values).tolist()!r} vs {v.tolist()!r}",
                        sig=sig)


def _incompatible(case, ctx, res):
    osy = ctx.osyris
    rng = ctx.rng("inc", case["i"])
    u1, u2 = case["u1"], case["u2"]
    v, a = _mk(osy, rng, "float64", (3,), u1)
    res.digest_src = {"inc": [u1, u2]}
    res.nontrivial = True
    if case["i"] % 97 == 0:
        res.sample = {"incompatible": [u1, u2]}
    before = fp(a)
    out = attempt(lambda: a.to(u2))
    res.count("to-must-raise")
    if out.ok:
        res.violate("no-raise-incompatible", f"Array(unit={u1!r}).to({u2!r}) returned {str(out.value)[:100]}")
    if fp(a) != before:
        res.violate("source-mutated", f"failed to({u2!r}) modified a")
    if case["i"] % 7 == 0:
        vec = osy.Vector(np.array([1.0, 2.0]), np.array([3.0, 4.0]), unit=u1)
        bv = fp(vec)
        o2 = attempt(lambda: vec.to(u2))
        res.count("to-must-raise")
        if o2.ok:
            res.violate("no-raise-incompatible", f"Vector(unit={u1!r}).to({u2!r}) returned a value")
        if fp(vec) != bv:
            res.violate("source-mutated", "failed Vector.to modified the vector")


def _chain(case, ctx, res):
    osy = ctx.osyris
    rng = ctx.rng("chain", case["i"])
    fam = gen.draw_family(rng)
    ua, ub, uc = (gen.draw_unit(rng, fam) for _ in range(3))
    dt = gen.draw_dtype(rng)
    shape = gen.draw_shape(rng)
    v, a = _mk(osy, rng, dt, shape, ua, targets=(ub, uc))
    dt = str(v.dtype)
    sig = {"chain": [ua, ub, uc], "dtype": dt, "shape": list(shape)}
    res.digest_src = sig
    res.sample = dict(sig, values=v)
    res.nontrivial = len({ua, ub, uc}) == 3
    res.count("chain")
    o1 = attempt(lambda: a.to(ub).to(uc))
    o2 = attempt(lambda: a.to(uc))
    if not (o1.ok and o2.ok):
        res.violate("raised-unexpectedly", f"chain {ua}->{ub}->{uc}: {o1.describe()} / {o2.describe()}", sig=sig)
        return
    rt = 3 * rtol_for(dt)
    x = np.asarray(o1.value.values, dtype=np.longdouble)
    y = np.asarray(o2.value.values, dtype=np.longdouble)
    if x.shape != y.shape or np.any(np.abs(x - y) > rt * np.abs(y)) or o1.value.unit != o2.value.unit:
        res.violate("chain-disagrees", f"{ua}->{ub}->{uc} gives {np.asarray(x, float).tolist()!r}, direct "
                    f"{np.asarray(y, float).tolist()!r}", sig=sig)
    msg = compare_quantity(o1.value.values, o1.value.unit, Q.of(v, osy.units(ua)), rt)
    if msg:
        res.violate("wrong-value", f"chain {ua}->{ub}->{uc}: {msg}", sig=sig)


def _vector(case, ctx, res):
    osy = ctx.osyris
    rng = ctx.rng("vec", case["i"])
    fam = gen.draw_family(rng)
    u1, u2 = gen.draw_unit(rng, fam), gen.draw_unit(rng, fam)
    nvec = int(rng.integers(1, 4))
    dt = gen.draw_dtype(rng)
    shape = gen.draw_shape(rng)
    ratio = scale_dims(osy.units(u1))[0] / scale_dims(osy.units(u2))[0]
    if dt == "float32" and not (1e-30 < ratio < 1e30):
        dt = "float64"
    comps = [gen.draw_values(rng, shape, dt) for _ in range(nvec)]
    vec = osy.Vector(*[c.copy() for c in comps], unit=u1, name="w")
    sig = {"vector": nvec, "u1": u1, "u2": u2, "dtype": dt, "shape": list(shape)}
    res.digest_src = sig
    res.sample = dict(sig, x=comps[0])
    res.nontrivial = osy.units(u1) != osy.units(u2)
    before = fp(vec)
    out = attempt(lambda: vec.to(u2))
    res.count("vector-to")
    if fp(vec) != before:
        res.violate("source-mutated", f"Vector.to({u2!r}) modified the vector: {diff(before, fp(vec))}", sig=sig)
    if not out.ok:
        res.violate("raised-unexpectedly", f"Vector({nvec},{u1!r}).to({u2!r}) {out.describe()}", sig=sig, tb=out.tb)
        return
    r = out.value
    if type(r).__name__ != "Vector" or r.nvec != nvec:
        res.violate("wrong-type", f"Vector.to returned {type(r).__name__} nvec={getattr(r, 'nvec', None)}", sig=sig)
        return
    for c, vals in zip("xyz", comps):
        rc = getattr(r, c)
        msg = compare_quantity(rc.values, rc.unit, Q.of(vals, osy.units(u1)), rtol_for(dt))
        if msg:
            res.violate("vector-component-wrong", f"Vector.to({u2!r}) component {c}: {msg}", sig=sig)
        if scale_dims(rc.unit) != scale_dims(osy.units(u2)):
            res.violate("wrong-target-unit", f"Vector.to({u2!r}) component {c} labelled {rc.unit!s}", sig=sig)


def _history(case, ctx, res):
    """a.to(u) depends only on a's current numbers: convert, tamper with the result / with a's buffer / with a
    through an in-place operator, convert again (the second conversion must not remember the first)"""
    osy = ctx.osyris
    rng = ctx.rng("history", case["i"])
    fam = gen.draw_family(rng, exclude=("dimensionless", "temperature", "magnetic"))
    u1, u2 = gen.draw_unit(rng, fam), gen.draw_unit(rng, fam)
    if u1 == u2:
        u2 = [u for u in FAMILIES[fam] if u != u1][0]
    is_vec = rng.random() < 0.4
    n = int(rng.integers(2, 6))
    nvec = int(rng.integers(1, 4))
    comps = [gen.draw_values(rng, (n,), "float64", nonzero=True) for _ in range(nvec if is_vec else 1)]
    obj = osy.Vector(*[c.copy() for c in comps], unit=u1) if is_vec else osy.Array(values=comps[0].copy(), unit=u1)
    steps = []
    res.count("conversion-history")
    res.nontrivial = True
    res.digest_src = {"hist": case["i"]}

    def parts(o):
        return [o] if type(o).__name__ == "Array" else [getattr(o, c_) for c_ in "xyz" if getattr(o, c_) is not None]

    def verify(label):
        out = attempt(lambda: obj.to(u2))
        if not out.ok:
            res.violate("raised-unexpectedly", f"{label}: to({u2!r}) {out.describe()}", steps=steps)
            return None
        for ci, (c_src, c_res) in enumerate(zip(parts(obj), parts(out.value))):
            msg = compare_quantity(c_res.values, c_res.unit, Q.of(np.array(c_src.values), c_src.unit), rtol_for("float64"))
            if msg:
                res.violate("conversion-depends-on-history", f"{label} after {steps}: {'Vector' if is_vec else 'Array'}({u1!r}).to({u2!r}) "
                            f"component {ci} is not the current quantity: {msg}", steps=steps)
                return None
        back = attempt(lambda: out.value.to(u1))
        if back.ok:
            for c_src, c_b in zip(parts(obj), parts(back.value)):
                a, b = np.asarray(c_src.values, dtype=np.longdouble), np.asarray(c_b.values, dtype=np.longdouble)
                if np.any(np.abs(a - b) > 1e-12 * np.abs(a)):
                    res.violate("round-trip-off", f"{label} after {steps}: round trip does not reproduce the source", steps=steps)
                    return None
        return out.value
    for step in range(int(rng.integers(2, 6))):
        r = verify(f"step {step}")
        if r is None:
            return
        op = ["mutate-result", "write-buffer", "inplace-source", "result-values", "third-unit"][int(rng.integers(0, 5))]
        steps.append(op)
        if op == "mutate-result":
            r *= 2.0                                  # the caller owns the result; the source must not notice
        elif op == "result-values":
            for c in parts(r):
                c.values[0] = 12345.0
        elif op == "write-buffer":
            for c in parts(obj):
                c.values[int(rng.integers(0, n))] = float(rng.integers(1, 99))
        elif op == "inplace-source":
            obj *= 3.0
        else:
            u3 = gen.draw_unit(rng, fam)
            attempt(lambda: obj.to(u3))
    verify("final")
    res.sample = {"object": "Vector" if is_vec else "Array", "units": [u1, u2], "steps": steps}
