"""C01 - a full load returns every leaf cell exactly once with true geometry, values, units.

Workload: synthetic RAMSES outputs written by vmon.ramses_synth from an explicit oct-forest model
(unique, decodable stored numbers; ghost copies negated).  Oracle: the model's leaf set and stored
numbers times an independent unit table, compared with what the real loader returns.
"""
import shutil

import numpy as np

from .. import io_monitors as iom
from .. import ramses_synth as rs

TITLE = "Full load returns every leaf cell exactly once with true geometry, values, units"
RULE = (
    "fixed corpus: ndim {1,2,3} x ncpu {1,3,8} x nboundary {0,2} (nx 3) x bound-key size {8,16} x noutput "
    "{1,11} x tree style (random / needle / uniform / shallow = levels without octs) x ordering, plus nout=-1 "
    "with decoy directories; then case i -> rng(seed, C01, i) draws a full random configuration "
    "(vmon.ramses_synth.random_spec: ncpu<=32, levels 1..7, nboundary<=6, ghost probability 0..1, unit_d/l/t "
    "over tens of decades, variable lists incl. vectors / incomplete component sets / stray x letters, "
    "grav, rt).  Non-trivial = >=2 populated levels and (>=2 CPUs own leaves or ncpu=1) and the files "
    "contain ghost or boundary blocks or an empty level; distinct = distinct specs."
)
ASSUMPTIONS = [
    "the writer follows RAMSES' output_amr/hydro/poisson/rt formats as summarised in DESIGN.md appendix A",
    "levelmax <= 7, <= ~12000 cells, little-endian, no bisection ordering",
    "1-D outputs keep position_x etc. as scalars (vector assembly is asserted for ndim >= 2)",
]


def plan(tier):
    return {"shards": 16, "timeout": 1200 if tier == "quick" else 5 * 3600,
            "required_monitors": ["row-multiset", "variable-values", "geometry", "key-set", "meta",
                                  "derived-variables", "reload-after-restricted-load"],
            "required_tags": ["ghost-blocks", "boundary-blocks", "empty-level", "ndim1", "ndim2", "ndim3",
                              "multi-cpu", "key16", "nout-minus-one", "grav", "rt"]}


def fixed_specs():
    out = []
    k = 0
    for ndim in (1, 2, 3):
        for ncpu in (1, 3, 8):
            for nb in (0, 2):
                style = ["random", "needle", "uniform", "shallow"][k % 4]
                nxyz = [1, 1, 1]
                if nb:
                    nxyz[k % ndim] = 3
                hyd = rs._restrict_components(list(rs.HYDRO_SETS[k % len(rs.HYDRO_SETS)]), ndim, None)
                out.append(rs.default_spec(
                    nout=[1, 12, 123][k % 3], ndim=ndim, ncpu=ncpu, nboundary=nb, nxyz=nxyz,
                    levelmin=1 + k % 3, levelmax=1 + k % 3 + (k % 4) + (2 if style == "shallow" else 0),
                    key_bytes=[8, 16][k % 2], noutput=[1, 11, 3][k % 3], style=style, tree_seed=1000 + k,
                    refine_prob=0.5, ghost_prob=[0.0, 0.6, 1.0][k % 3], hydro=hyd, grav=bool(k % 2),
                    rt=(rs._restrict_components(list(rs.RT_SETS[k % 3]), ndim, None) if k % 3 == 0 else None),
                    ordering=["hilbert", "planar", "hilbert", "angular"][k % 4],
                    bound_style=["octs", "random", "tiny", "equal"][k % 4],
                    boxlen=[1.0, 2.0, 0.5][k % 3], unit_d=10.0 ** (-20 + k), unit_l=10.0 ** (k % 20),
                    unit_t=10.0 ** (k % 13), max_octs=300,
                ))
                k += 1
    # output number given as -1, with older outputs present as decoys
    s = rs.default_spec(nout=7, ndim=3, ncpu=2, levelmax=3, tree_seed=77, decoys=["output_00001", "output_00003"])
    s["load_nout"] = -1
    out.append(s)
    s = rs.default_spec(nout=80, ndim=2, ncpu=1, levelmax=4, tree_seed=78, decoys=["output_00009"])
    s["load_nout"] = -1
    out.append(s)
    return out


def cases(ctx):
    out = [{"id": f"fix{i}", "fixed": i} for i in range(len(fixed_specs()))]
    n = 150 if ctx.tier == "quick" else 6000
    out += [{"id": f"r{i}", "i": i} for i in range(n)]
    return out


def spec_for(case, ctx):
    if "fixed" in case:
        return fixed_specs()[case["fixed"]]
    rng = ctx.rng(case["i"])
    spec = rs.random_spec(rng)
    if rng.random() < 0.1 and spec["nout"] > 1:
        spec["decoys"] = ["output_00001"]
        spec["load_nout"] = -1
    return spec


def coverage_tags(model):
    sp = model.spec
    tags = {f"ndim{sp['ndim']}"}
    levels = {o.level for o in model.octs}
    owners = {o.owner for o in model.octs}
    if sp["ncpu"] > 1 and len(owners) > 1:
        tags.add("multi-cpu")
    if any(dom != cpu and dom <= sp["ncpu"] for cpu, bl in model.files.items() for (lev, dom) in bl):
        tags.add("ghost-blocks")
    if any(dom > sp["ncpu"] for cpu, bl in model.files.items() for (lev, dom) in bl):
        tags.add("boundary-blocks")
    if len(levels) < sp["levelmax"]:
        tags.add("empty-level")
    if sp["key_bytes"] == 16:
        tags.add("key16")
    if sp.get("load_nout") == -1:
        tags.add("nout-minus-one")
    if sp["grav"]:
        tags.add("grav")
    if sp["rt"]:
        tags.add("rt")
    if len(owners) < sp["ncpu"]:
        tags.add("cpu-owning-nothing")
    if sp["ordering"] != "hilbert":
        tags.add("non-hilbert")
    return tags, len(levels), len(owners)


def run_case(case, ctx, res):
    osy = ctx.osyris
    spec = spec_for(case, ctx)
    model = rs.build(spec)
    path = ctx.scratch("c01-")
    try:
        rs.write(model, path)
        tags, nlev, nown = coverage_tags(model)
        res.tag(*tags)
        res.digest_src = iom.spec_brief(spec)
        res.sample = dict(iom.spec_brief(spec), octs=len(model.octs), levels=nlev, owners=nown)
        res.nontrivial = nlev >= 2 and (nown >= 2 or spec["ncpu"] == 1) and bool(
            tags & {"ghost-blocks", "boundary-blocks", "empty-level"})
        out, stdout, opened = iom.load(osy, path, spec.get("load_nout", spec["nout"]))
        if not out.ok:
            res.violate("load-raised", f"full load {out.describe()}", spec=iom.spec_brief(spec), tb=out.tb)
            return
        ds = out.value
        if "mesh" not in ds.keys():
            res.violate("no-mesh-group", f"full load returned groups {list(ds.keys())}", spec=iom.spec_brief(spec))
            return
        exp = rs.expected_mesh(model)
        mesh = ds["mesh"]
        ok = iom.check_mesh(res, osy, model, mesh, ds.meta, exp)
        nrows = mesh.shape[0] if mesh.shape else 0
        iom.check_meta(res, osy, model, ds, nrows)
        # every CPU file must have been opened by a full load
        res.count("files-opened")
        got = iom.cpus_opened(opened, "amr")
        if got != set(range(1, spec["ncpu"] + 1)):
            res.violate("files-not-opened", f"full load opened amr files of CPUs {sorted(got)} of {spec['ncpu']}",
                        spec=iom.spec_brief(spec))
        if ok and spec["ndim"] >= 2 and type(mesh["position"]).__name__ != "Vector":
            res.violate("vector-not-assembled", "position is not a Vector", spec=iom.spec_brief(spec))
        # the same statement for a dataset object that has been used before: a load without selection after a
        # restricted load (level cap, variable subset, cpu_list) still returns every leaf
        if ok and case.get("i", case.get("fixed", 0)) % 3 == 0:
            from ..util import attempt
            lv = max(1, min(o.level for o in model.octs))
            prior = [{"select": {"mesh": {"level": (lambda l, lv=lv: l <= lv)}}}, {"select": {"mesh": ["density"] if "density" in spec["hydro"] else [spec["hydro"][0]]}},
                     {"cpu_list": [1]}][case.get("i", case.get("fixed", 0)) // 3 % 3]
            with iom.quiet():
                o1 = attempt(lambda: ds.load(**prior))
                o2 = attempt(lambda: ds.load())
            res.count("reload-after-restricted-load")
            if not o2.ok:
                res.violate("load-raised", f"load() after load({list(prior)}) {o2.describe()}", spec=iom.spec_brief(spec))
            elif o1.ok:
                iom.check_mesh(res, osy, model, ds["mesh"], ds.meta, exp, what=f"load() after load({list(prior)}) on the same dataset")
    finally:
        shutil.rmtree(path, ignore_errors=True)
