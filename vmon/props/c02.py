"""C02 - Array arithmetic equals arithmetic on the physical quantities it represents.

Monitor: differential oracle on physical quantities (vmon.unitsref) around every
Python operator applied to real osyris Arrays + fingerprints of both operands
before/after every call (also calls that raise).
"""
import numpy as np

from .. import gen
from ..snapshot import diff, fp
from ..unitsref import Q, compare_quantity, dims_mul, dims_pow, rtol_for, scale_dims
from ..util import attempt

TITLE = "Array arithmetic equals arithmetic on physical quantities"
RULE = (
    "case i -> rng(seed, C02, i) draws operator (add sub mul div neg pow rmul rdiv and the "
    "ndarray-on-the-left forms), right operand kind (Array, int, float, numpy scalar, ndarray, "
    "pint Quantity), dtypes (float64/32, int64/32), shapes (0-d, 1-d, 2-d, broadcastable pairs) "
    "and a unit pair (same / compatible-different / incompatible) from the catalogue families; "
    "the fixed corpus (ids starting with 'fix') enumerates operator x kind x dtype x relation. "
    "Non-trivial = operands in different units, or a non-float64 dtype, or a non-1-d shape; "
    "distinct = distinct (operator, kind, dtypes, shapes, units) signatures."
)
ASSUMPTIONS = [
    "pint's reduction of a unit to CGS base units is correct (osyris' use of it is what is judged)",
    "values stay within +-1e6 (no overflow); integer wrap-around is numpy's and not judged",
    "a pint Quantity as LEFT operand dispatches to pint and is not decided",
]

OPS = ["add", "sub", "mul", "div", "neg", "pow", "rmul", "rdiv", "nd_mul", "nd_div", "nd_add", "nd_sub"]
KINDS = ["array", "int", "float", "npscalar", "ndarray", "quantity"]


def plan(tier):
    return {
        "shards": 16,
        "timeout": 900 if tier == "quick" else 4 * 3600,
        "required_monitors": ["quantity-oracle", "must-raise", "operands-unchanged", "repeat-after-mutation"],
    }


def cases(ctx):
    out = []
    # fixed corpus: every operator x kind x dtype x relation once, seed independent
    k = 0
    for op in OPS:
        kinds = KINDS if op in ("add", "sub", "mul", "div") else ["array"]
        for kind in kinds:
            for dt in gen.DTYPES:
                for rel in ("same", "compatible", "incompatible"):
                    out.append({"id": f"fix{k}", "fixed": True, "i": k, "op": op, "kind": kind,
                                "dtype": dt, "rel": rel})
                    k += 1
    n = 4000 if ctx.tier == "quick" else 400000
    for i in range(n):
        out.append({"id": f"r{i}", "i": i})
    return out


def _mk_rhs(osy, kind, vals, unit):
    if kind == "array":
        return osy.Array(values=vals, unit=unit)
    if kind == "quantity":
        return vals * osy.units(unit)
    if kind == "int":
        return int(np.asarray(vals).ravel()[0])
    if kind == "float":
        return float(np.asarray(vals).ravel()[0])
    if kind == "npscalar":
        return np.asarray(vals).ravel()[0]
    return np.array(vals)


def run_case(case, ctx, res):
    osy = ctx.osyris
    if case.get("fixed"):
        rng = ctx.rng("fixed", case["i"]) if False else gen_rng_fixed(case["i"])
        op, kind, dt1, rel = case["op"], case["kind"], case["dtype"], case["rel"]
        dt2 = dt1
    else:
        rng = ctx.rng(case["i"])
        op = OPS[int(rng.integers(0, len(OPS)))]
        kind = KINDS[int(rng.integers(0, len(KINDS)))] if op in ("add", "sub", "mul", "div") else "array"
        dt1, dt2 = gen.draw_dtype(rng), gen.draw_dtype(rng)
        rel = None
    f1, u1, f2, u2, rel = gen.draw_unit_pair(rng, rel)
    if not gen.float32_safe(osy, (dt1, dt2), (u1, u2)):
        dt1 = dt2 = "float64"
    shape1 = gen.draw_shape(rng)
    shape2 = gen.broadcast_partner(rng, shape1)
    positive = op == "pow"
    v1 = gen.draw_values(rng, shape1, dt1, positive=positive, small=(op == "pow"),
                         nonzero=op in ("rdiv",))
    v2 = gen.draw_values(rng, shape2, dt2, nonzero=op in ("div", "nd_mul", "nd_div") or True)
    a = osy.Array(values=v1.copy(), unit=u1, name="a")
    ua = a.unit
    A = Q.of(v1, ua)
    sig = {"op": op, "kind": kind, "dt": [dt1, dt2], "shapes": [list(shape1), list(shape2)],
           "units": [u1, u2], "rel": rel}
    res.digest_src = sig
    res.sample = dict(sig, a=v1, b=v2)
    unitless_kind = kind in ("int", "float", "npscalar", "ndarray")
    res.nontrivial = (u1 != u2 and not unitless_kind) or dt1 != "float64" or len(shape1) != 1

    # ---- build the call and the oracle --------------------------------------
    b = None
    expect = None          # Q or the string "raise"
    cond = None
    rt = rtol_for(dt1, dt2 if op not in ("neg", "pow", "rmul", "rdiv") else dt1)
    if op in ("add", "sub", "mul", "div"):
        b = _mk_rhs(osy, kind, v2.copy(), u2)
        if kind in ("int", "float", "npscalar"):
            bv = np.asarray(b)
            B = Q(np.asarray(bv, dtype=np.longdouble), ())
        elif kind == "ndarray":
            B = Q(np.asarray(b, dtype=np.longdouble), ())
        else:
            B = Q.of(v2, osy.units(u2))
        if op in ("add", "sub"):
            if dict(A.dims) == dict(B.dims):
                expect = Q(A.v + B.v if op == "add" else A.v - B.v, A.dims)
                cond = np.abs(A.v) + np.abs(B.v)
            else:
                expect = "raise"
        elif op == "mul":
            expect = Q(A.v * B.v, dims_mul(A.dims, B.dims))
        else:
            expect = Q(A.v / B.v, dims_mul(A.dims, B.dims, -1))
        fn = {"add": lambda: a + b, "sub": lambda: a - b, "mul": lambda: a * b, "div": lambda: a / b}[op]
    elif op == "neg":
        expect = Q(-A.v, A.dims)
        fn = lambda: -a  # noqa: E731
    elif op == "pow":
        if np.dtype(dt1).kind in "iu":
            k = int(rng.integers(0, 4))
        else:
            k = [2, 3, -1, -2, 0.5, 1.5, 0, 1][int(rng.integers(0, 8))]
        sig["k"] = k
        expect = Q(A.v ** np.longdouble(k), dims_pow(A.dims, k))
        rt = rt * (1 + abs(k))
        fn = lambda: a ** k  # noqa: E731
    elif op in ("rmul", "rdiv"):
        k = [3, -2, 0.5, 2.5e3, np.float64(1.5), np.int64(4), np.float32(0.25)][int(rng.integers(0, 7))]
        sig["k"] = repr(k)
        kk = np.longdouble(k)
        if op == "rmul":
            expect = Q(kk * A.v, A.dims)
            fn = lambda: k * a  # noqa: E731
        else:
            expect = Q(kk / A.v, dims_pow(A.dims, -1))
            fn = lambda: k / a  # noqa: E731
    else:  # ndarray on the left
        b = np.array(v2.copy())
        B = Q(np.asarray(b, dtype=np.longdouble), ())
        if op == "nd_mul":
            expect = Q(B.v * A.v, A.dims)
            fn = lambda: b * a  # noqa: E731
        elif op == "nd_div":
            expect = Q(B.v / A.v, dims_pow(A.dims, -1))
            fn = lambda: b / a  # noqa: E731
        else:
            if A.dims == ():
                expect = Q(B.v + A.v if op == "nd_add" else B.v - A.v, ())
                cond = np.abs(A.v) + np.abs(B.v)
            else:
                expect = "raise"
            fn = (lambda: b + a) if op == "nd_add" else (lambda: b - a)

    # operands whose shapes do not broadcast cannot occur (partner shapes are built to broadcast)
    before = (fp(a), fp(b))
    with np.errstate(all="ignore"):
        out = attempt(fn)
    after = (fp(a), fp(b))

    res.count("operands-unchanged")
    if before != after:
        res.violate("operand-mutated", f"{op}: an operand changed: {diff(before, after)}", sig=sig)

    if expect == "raise":
        res.count("must-raise")
        if out.ok:
            mech = "no-raise-incompatible"
            if op in ("nd_add", "nd_sub"):
                mech = "ndarray-left-addsub-treated-as-same-unit"
            res.violate(mech, f"{op} of incompatible operands ({u1!r} vs "
                        f"{'plain ' + kind if unitless_kind or op.startswith('nd_') else repr(u2)}) "
                        f"returned {str(out.value)[:120]} instead of raising", sig=sig)
        return
    res.count("quantity-oracle")
    if not out.ok:
        res.violate("raised-unexpectedly", f"{op} ({kind}, {dt1}/{dt2}, {u1!r}/{u2!r}) {out.describe()}",
                    sig=sig, tb=out.tb)
        return
    r = out.value
    if type(r).__name__ != "Array" or not hasattr(r, "unit"):
        res.violate("wrong-type", f"{op} returned {type(r).__name__}, not an osyris Array", sig=sig)
        return
    msg = compare_quantity(r.values, r.unit, expect, rt, cond)
    if msg:
        s, d = scale_dims(r.unit)
        mech = "wrong-value"
        if not _dims_equal(d, expect.dims):
            mech = "wrong-dimension"
            if d == () and str(r.dtype) not in ("float64", "int64"):
                mech = "unit-dropped-for-dtype"
        res.violate(mech, f"{op} ({kind}, {dt1}/{dt2}, {u1!r} vs {u2!r}): {msg}; result unit {r.unit!s} "
                    f"dtype {r.dtype}", sig=sig)
        return
    # second pass on the SAME objects: the result of an operator depends on the operands' current numbers only
    # (tamper with the returned object, change a's numbers in place, repeat)
    if op in ("add", "sub", "mul", "div") and np.dtype(dt1).kind == "f" and shape1 and case.get("i", 0) % 4 == 0:
        res.count("repeat-after-mutation")
        rv = np.asarray(r.values)
        if rv.shape and rv.dtype.kind == "f":
            rv[...] = 0.0
        a.values[...] = a.values * 2
        A2 = Q(A.v * 2, A.dims)
        exp2 = {"add": lambda: Q(A2.v + B.v, A.dims), "sub": lambda: Q(A2.v - B.v, A.dims),
                "mul": lambda: Q(A2.v * B.v, expect.dims), "div": lambda: Q(A2.v / B.v, expect.dims)}[op]()
        with np.errstate(all="ignore"):
            out2 = attempt(fn)
        if not out2.ok:
            res.violate("raised-unexpectedly", f"{op} repeated after changing a in place {out2.describe()}", sig=sig)
            return
        cond2 = (np.abs(A2.v) + np.abs(B.v)) if op in ("add", "sub") else None
        msg = compare_quantity(out2.value.values, out2.value.unit, exp2, 2 * rt, cond2)
        if msg:
            res.violate("result-depends-on-history", f"{op} ({kind}, {u1!r} vs {u2!r}) repeated on the same objects after a's "
                        f"numbers were doubled in place: {msg}", sig=sig)
            return
        # ... and once more after the RIGHT operand was changed in place
        if kind == "array" and np.dtype(dt2).kind == "f" and np.shape(v2):
            b.values[...] = np.asarray(b.values) * 3
            B3 = Q(B.v * 3, B.dims)
            exp3 = {"add": lambda: Q(A2.v + B3.v, A.dims), "sub": lambda: Q(A2.v - B3.v, A.dims),
                    "mul": lambda: Q(A2.v * B3.v, expect.dims), "div": lambda: Q(A2.v / B3.v, expect.dims)}[op]()
            with np.errstate(all="ignore"):
                out3 = attempt(fn)
            cond3 = (np.abs(A2.v) + np.abs(B3.v)) if op in ("add", "sub") else None
            msg = "raised" if not out3.ok else compare_quantity(out3.value.values, out3.value.unit, exp3, 2 * rt, cond3)
            if msg:
                res.violate("result-depends-on-history", f"{op} ({kind}, {u1!r} vs {u2!r}) repeated on the same objects after b's "
                            f"numbers were tripled in place: {msg}", sig=sig)


def _dims_equal(d1, d2):
    from ..unitsref import dims_close
    return dims_close(d1, d2)


def gen_rng_fixed(i):
    # the fixed corpus must not depend on VERIF_SEED
    return np.random.default_rng(np.random.SeedSequence([20240202, 2, int(i)]))
