"""C12 - a level-limited load returns the tree truncated at that level, without holes.

Oracle: the synthesiser's tree truncated at L (cells of level L are leaves and carry their own stored,
unique, coarse numbers), filtered by the predicate; volume conservation and point probes when every level
up to L is accepted.
"""
import shutil

import numpy as np

from .. import io_monitors as iom
from .. import ramses_synth as rs
from .. import selections as sel

TITLE = "A level-limited load returns the tree truncated at that level, without holes"
RULE = (
    "case i -> rng(seed, C12, i): random output whose tree has refined cells at the cap level; level predicate "
    "l<=k, l<k, a<l<b, l==k, l>=k (k from 1..levelmax), alone or combined with a value predicate (density / "
    "pressure threshold between two stored numbers), a position interval, other groups present (part/sink).  "
    "Non-trivial = at least one cell at the cap level L is refined on disk (so truncation differs from "
    "filtering); distinct = distinct (spec, predicates)."
)
ASSUMPTIONS = ["full loads are judged by C01; thresholds are placed away from stored numbers (decisive)"]


def plan(tier):
    return {"shards": 16, "timeout": 1200 if tier == "quick" else 5 * 3600,
            "required_monitors": ["row-multiset", "variable-values", "volume-conservation", "point-probes",
                                  "lmax-meta"],
            "required_tags": ["level-predicate-as-integer-flags", "cap-below-levelmax", "refined-at-cap", "combined-predicate", "strict-less",
                              "open-interval", "with-part"]}


def cases(ctx):
    n = 200 if ctx.tier == "quick" else 10000
    out = [{"id": f"fix{i}", "i": i, "fixed": True} for i in range(36)]
    out += [{"id": f"r{i}", "i": i} for i in range(n)]
    return out


def run_case(case, ctx, res):
    osy = ctx.osyris
    rng = (np.random.default_rng(np.random.SeedSequence([20240212, 12, case["i"]])) if case.get("fixed")
           else ctx.rng(case["i"]))
    spec = rs.random_spec(rng, max_octs=int(rng.choice([60, 300, 800])), ncpu=int(rng.choice([1, 2, 3, 6])),
                          levelmin=int(rng.integers(1, 3)))
    spec["levelmax"] = spec["levelmin"] + int(rng.integers(2, 5))
    spec["style"] = str(rng.choice(["random", "random", "needle"]))
    spec["refine_prob"] = float(rng.uniform(0.3, 0.8))
    if rng.random() < 0.4:
        spec["part"] = rs.make_part(rng, spec)
        res.tag("with-part")
    if rng.random() < 0.3:
        spec["sink"] = rs.make_sink(rng, spec)
    model = rs.build(spec)
    lm = spec["levelmax"]
    deepest = max(o.level for o in model.octs)
    form = ["le", "lt", "open", "eq", "ge", "le"][case["i"] % 6 if case.get("fixed") else int(rng.integers(0, 6))]
    k = int(rng.integers(1, max(2, deepest) + 1))
    if form == "le":
        preds = [{"var": "level", "op": "<=", "value": k}]
    elif form == "lt":
        k = min(k + 1, lm)
        preds = [{"var": "level", "op": "<", "value": k}]
        res.tag("strict-less")
    elif form == "open":
        a = int(rng.integers(0, k))
        preds = [{"var": "level", "op": "between", "value": [a, k + 1]}]
        res.tag("open-interval")
    elif form == "eq":
        preds = [{"var": "level", "op": "==", "value": k}]
    else:
        preds = [{"var": "level", "op": ">=", "value": k}]
    L = sel.level_cap(preds, lm)
    if L == 0:
        return
    exp_trunc = rs.expected_mesh(model, lmax=L)
    extra = None
    if rng.random() < 0.45:
        names = rs.cell_vars(model, "hydro")
        var = names[int(rng.integers(0, len(names)))]
        col = sel.model_column(model, exp_trunc, var)
        srt = np.sort(col)
        j = int(rng.integers(0, len(srt)))
        thr = float(srt[j]) * (1 + 1e-3) if srt[j] > 0 else float(srt[j]) * (1 - 1e-3)
        fac, dims = iom.expected_unit(var, spec)
        unit = {(): ""}.get(dims)
        if unit is None:
            # hand the threshold over in CGS base units of that dimension
            unit = " * ".join(f"{ {'centimeter': 'cm', 'gram': 'g', 'second': 's', 'kelvin': 'K'}[n]}**{p}" for n, p in dims)
        extra = {"var": var, "op": [">", "<"][int(rng.integers(0, 2))], "value": thr, "unit": unit}
        preds.append(extra)
        res.tag("combined-predicate")
    elif rng.random() < 0.3:
        boxcm = spec["boxlen"] * spec["unit_l"]
        lo = float(rng.uniform(0, 0.6))
        hi = float(lo + rng.uniform(0.2, 0.5))
        extra = {"var": "position_x", "op": "between", "value": [lo * boxcm * (1 + 1e-7), hi * boxcm * (1 + 1e-7)],
                 "unit": "cm"}
        preds.append(extra)
        res.tag("combined-predicate", "position-predicate")
    if not sel.decisive(model, exp_trunc, preds):
        res.inconclusive.append("threshold within rounding of a stored number")
        return
    mask = sel.model_mask(model, exp_trunc, preds)
    exp = sel.filter_exp(exp_trunc, mask)
    refined_at_cap = bool(np.any(exp_trunc["refined_on_disk"] & (exp_trunc["level"] == L)))
    res.nontrivial = refined_at_cap and mask.any()
    if refined_at_cap:
        res.tag("refined-at-cap")
    if L < lm:
        res.tag("cap-below-levelmax")
    res.digest_src = {"spec": iom.spec_brief(spec), "preds": preds}
    res.sample = {"spec": {kk: spec[kk] for kk in ("ndim", "ncpu", "levelmin", "levelmax", "style")},
                  "predicates": preds, "cap_level": L, "expected_rows": int(mask.sum()),
                  "cells_refined_at_cap": int(np.sum(exp_trunc["refined_on_disk"] & (exp_trunc["level"] == L)))}
    path = ctx.scratch("c12-")
    try:
        rs.write(model, path)
        select = {"mesh": sel.to_select(osy, preds)}
        flags = ""
        if case["i"] % 4 == 3:
            # the same predicate written with 0/1 flags instead of booleans ((l <= k) * 1, np.where(l <= k, 1, 0)):
            # any function whose result is true exactly for the accepted levels is a level predicate
            f0 = select["mesh"]["level"]
            if case["i"] % 8 == 3:
                select["mesh"]["level"] = lambda a, f0=f0: f0(a) * 1
                flags = " written as (..) * 1"
            else:
                select["mesh"]["level"] = lambda a, f0=f0: np.where(f0(a), 1, 0)
                flags = " written as np.where(.., 1, 0)"
            res.tag("level-predicate-as-integer-flags")
        out, _, opened = iom.load(osy, path, spec["nout"], select=select)
        what = f"load(select level {form} {k}{flags}{' & ' + extra['var'] if extra else ''}) [cap L={L}]"
        if not mask.any():
            # nothing qualifies: an empty/absent mesh group (or an error saying so) is all that can be demanded
            res.count("empty-selection")
            if out.ok and "mesh" in out.value.keys() and len(out.value["mesh"]) and out.value["mesh"].shape and \
                    out.value["mesh"].shape[0] > 0:
                res.violate("rows-wrong", f"{what}: model selects no cell, {out.value['mesh'].shape[0]} rows returned",
                            spec=iom.spec_brief(spec), preds=preds)
            return
        if not out.ok:
            res.violate("load-raised", f"{what} {out.describe()}", spec=iom.spec_brief(spec), preds=preds, tb=out.tb)
            return
        ds = out.value
        mesh = ds["mesh"]
        ok = iom.check_mesh(res, osy, model, mesh, ds.meta, exp, what=what)
        if not ok:
            # classify the classic failure: deeper levels were traversed / cap-level cells treated as refined
            for v in res.violations:
                if v["mech"] in ("rows-missing", "rows-wrong", "rows-duplicated"):
                    lev = np.asarray(mesh["level"].values)
                    if ds.meta.get("lmax") != L and np.all(np.isin(lev, exp["level"])):
                        v["mech"] = "level-cap-ignored"
        res.count("lmax-meta")
        if "lmax" in ds.meta and ds.meta["lmax"] != L:
            res.violate("level-cap-ignored", f"{what}: meta['lmax'] = {ds.meta['lmax']}, highest accepted level is {L}",
                        spec=iom.spec_brief(spec), preds=preds)
        iom.check_meta(res, osy, model, ds, mesh.shape[0] if mesh.shape else 0, what=what)
        # tiling: when every level up to L is accepted and nothing else restricts, the rows tile the domain
        all_levels = bool(np.all(sel.eval_numbers(preds[0], np.arange(1, L + 1)))) and extra is None
        if all_levels:
            boxcm = spec["boxlen"] * spec["unit_l"]
            dx = np.asarray(mesh["dx"].to("cm").values, dtype=float) / boxcm
            res.count("volume-conservation")
            vol = float(np.sum(dx ** spec["ndim"]))
            if abs(vol - 1.0) > 1e-9:
                res.violate("holes-or-overlaps", f"{what}: the returned cells cover {vol:.6f} of the domain volume",
                            spec=iom.spec_brief(spec), preds=preds)
            pos = iom.mesh_rows(mesh, spec["ndim"], spec)
            prng = np.random.default_rng(12345 + case["i"])
            pts = prng.random((400, spec["ndim"]))
            res.count("point-probes")
            inside = np.all(np.abs(pts[:, None, :] - pos[None, :, :]) < 0.5 * dx[None, :, None] * (1 - 1e-9), axis=2)
            cnt = inside.sum(axis=1)
            near_face = np.any(np.abs(np.abs(pts[:, None, :] - pos[None, :, :]) - 0.5 * dx[None, :, None]) < 1e-9, axis=(1, 2))
            bad = (cnt != 1) & ~near_face
            if np.any(bad):
                i = int(np.argwhere(bad)[0][0])
                res.violate("holes-or-overlaps", f"{what}: probe point {pts[i].tolist()} lies in {int(cnt[i])} returned cells",
                            spec=iom.spec_brief(spec), preds=preds)
    finally:
        shutil.rmtree(path, ignore_errors=True)
