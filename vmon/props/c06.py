"""C06 - Datagroup members stay row-aligned under insertion, slicing and sorting.

Row tags: every numeric member holds values that are unique per row
(value = f(member, row)), so each row of a result decodes to the source row of
each member.  Model of an index object = numpy indexing of arange(n).  A
quiescent-point invariant (all members have the group's shape, names = keys,
units kept) is asserted after every step of a history.
"""
import numpy as np

from .. import gen
from ..snapshot import fp
from ..util import attempt

TITLE = "Datagroup members stay row-aligned under insertion, slicing and sorting"
RULE = (
    "history i -> rng(seed, C06, i): a group mixing Arrays and 1-3 component Vectors (dtypes float64/32, "
    "int64/32, bool; n in 0..50) whose numeric values are unique row tags; up to 12 operations from {insert, "
    "replace, insert mis-shaped (must be rejected, group unchanged), update, delete, pop, index with int(+-), "
    "slice with step(+-), boolean mask as ndarray or Array, integer ndarray/list/Array with repeats, "
    "permutation, sortby(member), sortby(index list)}.  After each step every member is decoded to source "
    "rows and compared with the model selection.  Non-trivial = group mixes Array and Vector members and a "
    "non-identity index was applied; distinct = distinct (member layout, operation sequence)."
)
ASSUMPTIONS = [
    "sortby by a Vector member is outside the statement (it raises today)",
    "ties in the sort key may be ordered either way; only 'one permutation for all members, key sorted' is demanded",
]

DT = ["float64", "float32", "int64", "int32", "bool"]
SHARED = set()     # keys of the current history whose member object is also stored elsewhere under another name


def plan(tier):
    return {"shards": 16, "timeout": 900 if tier == "quick" else 4 * 3600,
            "required_monitors": ["row-alignment", "rejected-insertion-leaves-state", "sort-alignment",
                                  "quiescent-invariant"],
            "required_tags": ["bulk-insertion-into-empty-group"]}


def cases(ctx):
    n = 2000 if ctx.tier == "quick" else 100000
    out = [{"id": f"fix{i}", "i": i, "fixed": True} for i in range(60)]
    out += [{"id": f"h{i}", "i": i} for i in range(n)]
    out.append({"id": "contracts-repo-tests", "kind": "contracts", "i": 0})
    # insertions of several members at once (update with a mapping / keywords, the constructor), also into a group that
    # is empty at that moment: the members of one call must agree with each other, not only with the group
    out += [{"id": f"bulk{i}", "kind": "bulk", "i": i} for i in range(96 if ctx.tier == "quick" else 6000)]
    return out


class Member:
    """model of one member: per-component original value columns + current source rows"""

    def __init__(self, kind, comps, unit):
        self.kind, self.comps, self.unit = kind, comps, unit


def _make_member(osy, rng, n, mid, kind=None, dtype=None):
    kind = kind or ["array", "array", "vector"][int(rng.integers(0, 3))]
    dtype = dtype or DT[int(rng.integers(0, len(DT)))]
    unit = gen.draw_unit(rng, gen.draw_family(rng))
    nvec = 1 if kind == "array" else int(rng.integers(1, 4))
    comps = []
    for c in range(nvec):
        if dtype == "bool":
            col = (np.arange(n) + c + mid) % 2 == 0
        else:
            col = (np.arange(n) * 8 + c + 64 * 8 * mid).astype(dtype)   # unique per (member, component, row)
            if np.dtype(dtype).kind == "f":
                col = col + np.dtype(dtype).type(0.5)
        comps.append(col)
    if dtype == "bool":
        unit = ""
    if kind == "array":
        obj = osy.Array(values=comps[0].copy(), unit=unit)
    else:
        obj = osy.Vector(*[c.copy() for c in comps], unit=unit)
    return obj, Member(kind, comps, obj.unit)


def _comps_of(obj):
    return [obj] if type(obj).__name__ == "Array" else [getattr(obj, c_) for c_ in "xyz" if getattr(obj, c_) is not None]


def _check_state(res, label, dg, model, rows, scalar, steps):
    """model: {key: Member}; rows: current source rows (ndarray of ints) or an int for scalar groups"""
    res.count("quiescent-invariant")
    if list(dg.keys()) != list(model.keys()):
        res.violate("keys-differ", f"{label}: keys {list(dg.keys())} != {list(model.keys())}", steps=steps)
        return False
    exp_shape = () if (scalar or not model) else (len(rows),)
    if dg.shape != exp_shape:
        res.violate("group-shape", f"{label}: group.shape {dg.shape} != {exp_shape}", steps=steps)
        return False
    for key, m in model.items():
        obj = dg[key]
        if obj.name != key and key not in SHARED:
            # (a member that was also stored in another group under another key carries that key as its name:
            #  sharing objects between groups is supported, the name follows the last insertion)
            res.violate("name-lost", f"{label}: member {key!r} is named {obj.name!r}", steps=steps)
            return False
        if type(obj).__name__ != ("Array" if m.kind == "array" else "Vector"):
            res.violate("member-type", f"{label}: member {key!r} became {type(obj).__name__}", steps=steps)
            return False
        comps = _comps_of(obj)
        if len(comps) != len(m.comps):
            res.violate("component-lost", f"{label}: member {key!r} has {len(comps)} components", steps=steps)
            return False
        if obj.unit != m.unit:
            res.violate("unit-lost", f"{label}: member {key!r} unit {obj.unit!s} != {m.unit!s}", steps=steps)
            return False
        for ci, (got, orig) in enumerate(zip(comps, m.comps)):
            gv = np.asarray(got.values)
            if gv.shape != exp_shape:
                res.violate("members-misaligned", f"{label}: member {key!r}[{ci}] shape {gv.shape} != group {exp_shape}",
                            steps=steps)
                return False
            exp = orig[rows]
            if gv.dtype != orig.dtype or not np.array_equal(gv, exp):
                # decode where the rows came from, for the message
                lut = {v.item(): r for r, v in enumerate(orig)} if orig.dtype != np.bool_ else {}
                src = [lut.get(x.item(), "?") for x in np.atleast_1d(gv)][:12]
                res.violate("rows-mixed", f"{label}: member {key!r}[{ci}] holds source rows {src}, "
                            f"other members / the index select {np.atleast_1d(rows)[:12].tolist()}", steps=steps)
                return False
    res.count("row-alignment")
    return True


def _draw_index(osy, rng, n):
    """-> (index object handed to osyris, description, model selection on arange(n), is_identity)"""
    ar = np.arange(n)
    kind = ["int", "negint", "slice", "slicestep", "negstep", "mask", "maskarray", "intarray", "intlist",
            "intArray", "perm", "permArray32", "empty"][int(rng.integers(0, 13))]
    if n == 0 and kind in ("int", "negint"):
        kind = "slice"
    if kind == "int":
        i = int(rng.integers(0, n))
        return i, f"[{i}]", ar[i]
    if kind == "negint":
        i = -int(rng.integers(1, n + 1))
        return i, f"[{i}]", ar[i]
    if kind == "slice":
        a, b = sorted(int(x) for x in rng.integers(-n - 1, n + 2, size=2))
        return slice(a, b), f"[{a}:{b}]", ar[a:b]
    if kind == "slicestep":
        a, b, s = int(rng.integers(0, n + 1)), int(rng.integers(0, n + 2)), int(rng.integers(1, 4))
        return slice(a, b, s), f"[{a}:{b}:{s}]", ar[a:b:s]
    if kind == "negstep":
        s = -int(rng.integers(1, 4))
        return slice(None, None, s), f"[::{s}]", ar[::s]
    if kind in ("mask", "maskarray"):
        m = rng.random(n) < 0.5
        idx = m if kind == "mask" else osy.Array(values=m.copy())
        return idx, f"mask({kind}) {m.astype(int).tolist()}", ar[m]
    if kind in ("intarray", "intlist", "intArray"):
        k = int(rng.integers(0, n + 3)) if n else 0
        ii = rng.integers(-n, n, size=k) if n else np.zeros(0, dtype=int)
        idx = ii if kind == "intarray" else (ii.tolist() if kind == "intlist" else osy.Array(values=ii.astype("int64")))
        return idx, f"{kind} {ii.tolist()}", ar[ii]
    if kind in ("perm", "permArray32"):
        p = rng.permutation(n)
        idx = p if kind == "perm" else osy.Array(values=p.astype("int32"))
        return idx, f"{kind} {p.tolist()}", ar[p]
    return np.zeros(0, dtype=int), "empty index", ar[np.zeros(0, dtype=int)]


def _bulk(case, ctx, res):
    osy = ctx.osyris
    i = case["i"]
    rng = np.random.default_rng(np.random.SeedSequence([20240206, 66, i])) if i < 96 else ctx.rng("bulk", i)
    n = int(rng.integers(1, 9))
    start = ["fresh", "cleared", "popped", "deleted", "one-member", "two-members"][i % 6]
    how = ["update-dict", "update-kwargs", "constructor", "update-dict"][(i // 6) % 4]
    dg = osy.Datagroup()
    if start in ("cleared", "popped", "deleted", "one-member", "two-members"):
        dg["old0"] = _make_member(osy, rng, n, 1, kind="array")[0]
        if start != "one-member":
            dg["old1"] = _make_member(osy, rng, n, 2)[0]
        if start == "cleared":
            dg.clear()
        elif start == "popped":
            dg.pop("old1")
            dg.pop("old0")
        elif start == "deleted":
            del dg["old0"]
            del dg["old1"]
    empty = len(dg) == 0
    # members of the call: k of the group's length (or of a common new length if the group is empty), one of another
    nnew = int(rng.integers(2, 5))
    base = n if not empty else int(rng.integers(1, 9))
    odd = base + int(rng.choice([-1, 1, 2, 5])) if base > 1 else base + 1
    pos_odd = int(rng.integers(0, nnew)) if (i // 24) % 2 == 0 else None      # None: a consistent call (must be accepted)
    new = {}
    for j in range(nnew):
        new[f"new{j}"] = _make_member(osy, rng, odd if j == pos_odd else base, 10 + j)[0]
    lens = {k: (v.shape[0] if v.shape else None) for k, v in new.items()}
    label = f"{how} of members with lengths {list(lens.values())} on a group that is {start} (length {None if empty else n})"
    res.sample = {"start": start, "how": how, "lengths": list(lens.values())}
    res.digest_src = {"bulk": i, "start": start, "how": how, "lens": list(lens.values())}
    res.nontrivial = pos_odd is not None
    res.tag("bulk-insertion")
    if empty:
        res.tag("bulk-insertion-into-empty-group")
    before_old = {k: fp(dg[k]) for k in dg.keys()}
    if how == "constructor":
        if not empty:
            how = "update-dict"
        else:
            o = attempt(lambda: osy.Datagroup(**new))
            tgt = o.value if o.ok else None
    if how == "update-dict":
        o = attempt(dg.update, new)
        tgt = dg
    elif how == "update-kwargs":
        o = attempt(lambda: dg.update(**new))
        tgt = dg
    res.count("rejected-insertion-leaves-state")
    if pos_odd is None:
        if not o.ok:
            res.violate("valid-insertion-rejected", f"{label}: {o.describe()}", tb=o.tb)
        elif set(tgt.keys()) != set(before_old) | set(new):
            res.violate("row-misaligned", f"{label}: keys {list(tgt.keys())}")
        return
    if o.ok:
        shapes = {k: tgt[k].shape for k in tgt.keys()}
        res.violate("bad-insertion-accepted", f"{label}: accepted; the group now holds members of shapes {shapes}")
        return
    # rejected: whatever was inserted before the offending member, the group must be consistent and the old members intact
    res.count("quiescent-invariant")
    if tgt is not None:
        shapes = {tgt[k].shape for k in tgt.keys()}
        if len(shapes) > 1:
            res.violate("shape-invariant-broken", f"{label}: rejected, but the group is left with members of shapes {shapes}")
            return
        for k, f0 in before_old.items():
            if k not in tgt.keys() or fp(tgt[k]) != f0:
                res.violate("rejected-insertion-changed-state", f"{label}: rejected, but old member {k!r} changed or disappeared")
                return
        if f"new{pos_odd}" in tgt.keys() and len(tgt.keys()) > 1:
            res.violate("bad-insertion-accepted", f"{label}: raised, but the mis-shaped member is in the group")


def run_case(case, ctx, res):
    if case.get("kind") == "bulk":
        return _bulk(case, ctx, res)
    if case.get("kind") == "contracts":
        from .. import contracts
        return contracts.judge_repo_tests(res, ctx, ["test_datagroup.py"], ("Datagroup.",))
    osy = ctx.osyris
    if case.get("fixed"):
        rng = np.random.default_rng(np.random.SeedSequence([20240206, 6, case["i"]]))
    else:
        rng = ctx.rng(case["i"])
    n = int(rng.integers(0, 51)) if rng.random() < 0.9 else int(rng.integers(0, 4))
    nmem = int(rng.integers(2, 6))
    dg = osy.Datagroup()
    model = {}
    mid = 0
    keys = ["m%d" % i for i in range(8)]
    layout = []
    for i in range(nmem):
        kind = "vector" if i == 1 else ("array" if i == 0 else None)
        obj, m = _make_member(osy, rng, n, mid, kind=kind, dtype=DT[int(rng.integers(0, 4))] if i == 0 else None)
        mid += 1
        dg[keys[i]] = obj
        model[keys[i]] = m
        layout.append((m.kind, len(m.comps), str(m.comps[0].dtype)))
    rows = np.arange(n)
    scalar = False
    steps = []
    nonident = False
    SHARED.clear()
    other = osy.Datagroup()     # a second group that shares member objects with the first
    if not _check_state(res, "initial", dg, model, rows, scalar, steps):
        return
    nops = int(rng.integers(2, 13))
    for step in range(nops):
        if scalar:
            break
        cur = len(rows)
        op = ["index", "index", "index", "sortkey", "sortlist", "insert", "replace", "bad", "update", "delete",
              "pop", "share"][int(rng.integers(0, 12))]
        label = f"step {step} {op} after {steps}"
        if op == "share":
            # the same member object is also put into another group under another key (this renames it)
            if not model:
                continue
            key = list(model)[int(rng.integers(0, len(model)))]
            if len(other) and other.shape != dg[key].shape:
                other = osy.Datagroup()
            steps.append(f"share({key} as shared_{key})")
            o = attempt(other.__setitem__, "shared_" + key, dg[key])
            if not o.ok:
                res.violate("raised-unexpectedly", f"{label}: storing a member in a second group {o.describe()}", steps=steps)
                return
            SHARED.add(key)
            res.tag("shared-member")
            if not _check_state(res, label, dg, model, rows, scalar, steps):
                return
            continue
        if op == "index":
            idx, desc, sel = _draw_index(osy, rng, cur)
            steps.append("index " + desc)
            before = fp(dg)
            o = attempt(dg.__getitem__, idx)
            if fp(dg) != before:
                res.violate("source-group-changed", f"{label}: indexing with {desc} changed the source group", steps=steps)
                return
            if not o.ok:
                res.violate("raised-unexpectedly", f"{label}: dg[{desc}] {o.describe()}", steps=steps, tb=o.tb)
                return
            new = o.value
            if type(new).__name__ != "Datagroup":
                res.violate("wrong-type", f"{label}: indexing returned {type(new).__name__}", steps=steps)
                return
            newrows = rows[sel]
            if np.ndim(sel) == 0:
                scalar = True
            elif not (len(sel) == cur and np.array_equal(sel, np.arange(cur))):
                nonident = True
            if not _check_state(res, label + f" -> dg[{desc}]", new, model, newrows, scalar, steps):
                return
            # the source is still intact and aligned
            if not _check_state(res, label + " (source afterwards)", dg, model, rows, False, steps):
                return
            if rng.random() < 0.7:
                dg, rows = new, newrows     # continue the history on the result (fresh member objects)
                SHARED.clear()
            else:
                scalar = False
        elif op in ("sortkey", "sortlist"):
            if op == "sortkey":
                cands = [k for k, m in model.items() if m.kind == "array"]
                if not cands:
                    continue
                key = cands[int(rng.integers(0, len(cands)))]
                steps.append(f"sortby({key})")
                o = attempt(dg.sortby, key)
                arg = key
            else:
                p = rng.permutation(cur)
                arg = p if rng.random() < 0.5 else p.tolist()
                steps.append(f"sortby({p.tolist()})")
                o = attempt(dg.sortby, arg)
            res.count("sort-alignment")
            if not o.ok:
                res.violate("raised-unexpectedly", f"{label}: sortby {o.describe()}", steps=steps, tb=o.tb)
                return
            # decode the permutation from a member with unique tags, then demand it of all members
            perm = None
            for k, m in model.items():
                if m.comps[0].dtype != np.bool_:
                    lut = {v.item(): r for r, v in enumerate(m.comps[0])}
                    got = np.atleast_1d(np.asarray(_comps_of(dg[k])[0].values))
                    try:
                        perm = np.array([lut[x.item()] for x in got], dtype=int)
                    except KeyError:
                        res.violate("rows-mixed", f"{label}: member {k!r} holds values that are not row tags", steps=steps)
                        return
                    break
            if perm is None:
                break      # only boolean members left: the permutation cannot be decoded, stop judging here
            if sorted(perm.tolist()) != sorted(rows.tolist()):
                res.violate("not-a-permutation", f"{label}: rows after sort {perm.tolist()[:20]} are not a permutation of "
                            f"{rows.tolist()[:20]}", steps=steps)
                return
            if op == "sortkey":
                kv = model[key].comps[0][perm].astype(float)
                if np.any(np.diff(kv) < 0):
                    res.violate("key-not-sorted", f"{label}: key member not in ascending order after sortby", steps=steps)
                    return
            else:
                if not np.array_equal(perm, rows[np.asarray(p)]):
                    res.violate("wrong-permutation", f"{label}: rows {perm.tolist()[:20]} != requested {rows[np.asarray(p)].tolist()[:20]}",
                                steps=steps)
                    return
            if not np.array_equal(perm, rows):
                nonident = True
            rows = perm
            SHARED.clear()       # sorting stores new member objects, named after their keys
            if not _check_state(res, label, dg, model, rows, scalar, steps):
                return
        elif op in ("insert", "replace", "update"):
            # new members are tagged for the *current* rows: their source row r is current row position
            def fresh():
                nonlocal mid
                obj, m = _make_member(osy, rng, max(int(rows.max()) + 1 if len(rows) else 0, cur), mid)
                mid += 1
                # place tags so that decoding through `rows` gives the same answer as for old members
                for c_obj, col in zip(_comps_of(obj), m.comps):
                    c_obj._array = col[rows].copy()
                return obj, m
            if op == "replace":
                key = list(model)[int(rng.integers(0, len(model)))] if model else keys[0]
            else:
                free = [k for k in keys if k not in model]
                if not free:
                    continue
                key = free[0]
            if op == "update":
                new = {}
                newm = {}
                for k in [key] + [k for k in keys if rng.random() < 0.25]:
                    new[k], newm[k] = fresh()
                steps.append(f"update({list(new)})")
                o = attempt(dg.update, new)
                model.update(newm)
            else:
                obj, m = fresh()
                steps.append(f"{op}({key})")
                o = attempt(dg.__setitem__, key, obj)
                model[key] = m
            if not o.ok:
                res.violate("valid-insertion-rejected", f"{label}: {o.describe()}", steps=steps, tb=o.tb)
                return
            if not _check_state(res, label, dg, model, rows, scalar, steps):
                return
        elif op == "bad":
            if not model:
                continue
            wrong = cur + int(rng.integers(1, 4)) if rng.random() < 0.7 or cur == 0 else cur - 1
            obj, _ = _make_member(osy, rng, wrong, 63)
            # target: a new key, or an existing one (replacement) - including the first member, whose shape
            # defines the group's: a mis-shaped replacement must be rejected there as well
            r = rng.random()
            free = [k for k in keys if k not in model]
            if r < 0.25:
                tgt = list(model)[0]
            elif r < 0.45 and len(model) > 1:
                tgt = list(model)[int(rng.integers(1, len(model)))]
            elif free:
                tgt = free[0]
            else:
                continue
            steps.append(f"bad-insert({tgt}, n={wrong})")
            before = fp(dg)
            o = attempt(dg.__setitem__, tgt, obj)
            res.count("rejected-insertion-leaves-state")
            if o.ok:
                res.violate("bad-insertion-accepted", f"{label}: member of length {wrong} accepted into a group of "
                            f"length {cur}", steps=steps)
                return
            if fp(dg) != before:
                res.violate("rejected-insertion-changed-state", f"{label}: rejected insertion changed the group", steps=steps)
                return
        elif op in ("delete", "pop"):
            if len(model) <= 1:
                continue
            key = list(model)[int(rng.integers(1, len(model)))]
            steps.append(f"{op}({key})")
            o = attempt(dg.__delitem__, key) if op == "delete" else attempt(dg.pop, key)
            if not o.ok:
                res.violate("raised-unexpectedly", f"{label}: {o.describe()}", steps=steps)
                return
            del model[key]
            if not _check_state(res, label, dg, model, rows, scalar, steps):
                return
    kinds = {m.kind for m in model.values()}
    res.nontrivial = kinds == {"array", "vector"} and nonident
    res.digest_src = {"layout": layout, "n": n, "steps": steps}
    res.sample = {"n": n, "members": layout, "steps": steps[:12]}
