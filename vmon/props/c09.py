"""C09 - Vector operations are the component-wise lifting of Array operations.

Two oracles:
* lifting oracle - the *real* Array operation applied to each component (isolates
  C09 from C02): the Vector result must have, per component, bit-identical
  values, dtype, shape and an equal unit; if the component operation raises, the
  Vector operation must raise as well;
* quantity oracle (vmon.unitsref) for norm / dot / cross, including operands in
  different compatible units, plus the algebraic laws of the two products.
"""
import operator

import numpy as np

from .. import gen
from ..snapshot import fp
from ..unitsref import Q, compare_quantity, dims_mul, rtol_for, scale_dims
from ..util import attempt

TITLE = "Vector operations are the component-wise lifting of Array operations"
RULE = (
    "case i -> rng(seed, C09, i): kind in {lift (operator or numpy call on a Vector vs the same call on each "
    "component Array), nvec-mismatch (must raise), norm, dot, cross (quantity oracle + algebraic laws)}; "
    "1/2/3 components, shapes () .. (n,m), four dtypes, right operands Vector/Array/number/ndarray/Quantity, "
    "unit pairs same/compatible/incompatible.  Non-trivial = operands in different units, or nvec<3, or "
    "non-1-d shape; distinct = distinct (kind, op, nvec, rhs kind, dtypes, shape, units)."
)
ASSUMPTIONS = [
    "the Array operations used as lifting oracle are judged separately by C02/C07/C10",
    "a numpy ndarray or a pint Quantity on the LEFT of a Vector dispatches to numpy/pint first and is not decided "
    "(a Python number or an Array on the left is: reflected operators)",
]

BIN = {"add": operator.add, "sub": operator.sub, "mul": operator.mul, "div": operator.truediv,
       "lt": operator.lt, "le": operator.le, "gt": operator.gt, "ge": operator.ge,
       "eq": operator.eq, "ne": operator.ne}
BIN_NAMES = sorted(BIN)
UNARY = {"neg": operator.neg, "pow2": lambda v: v ** 2, "pow05": lambda v: v ** 0.5, "pow-1": lambda v: v ** -1,
         "rmul": lambda v: 2.5 * v, "rdiv": lambda v: 3.0 / v,
         "np.sqrt": np.sqrt, "np.abs": np.abs, "np.negative": np.negative, "np.sum": np.sum,
         "np.square_via_mul": lambda v: np.multiply(v, v), "np.isfinite": np.isfinite,
         "reshape": lambda v: v.reshape(-1), "getitem0": lambda v: v[..., 0] if v.shape else v,
         "min": lambda v: v.min(), "max": lambda v: v.max()}
UNARY_NAMES = sorted(UNARY)
NPBIN = {"np.multiply": np.multiply, "np.divide": np.divide, "np.add": np.add, "np.subtract": np.subtract,
         "np.less": np.less, "np.maximum": np.maximum}
NPBIN_NAMES = sorted(NPBIN)
KINDS = ["vector", "vector", "array", "float", "int", "ndarray", "quantity"]


def plan(tier):
    return {"shards": 16, "timeout": 900 if tier == "quick" else 4 * 3600,
            "required_monitors": ["lift-oracle", "nvec-mismatch-must-raise", "norm-oracle", "dot-oracle",
                                  "cross-oracle", "product-laws", "stateful-reads"],
            "required_tags": ["other-operand-on-the-left", "component-assigned"]}


def cases(ctx):
    out = []
    k = 0
    for kind in ("lift", "npbin", "unary", "concat", "mismatch", "norm", "dot", "cross", "logical"):
        for nvec in (1, 2, 3):
            for rel in ("same", "compatible", "incompatible"):
                for dt in ("float64", "float32", "int64"):
                    out.append({"id": f"fix{k}", "fixed": True, "i": k, "kind": kind, "nvec": nvec,
                                "rel": rel, "dtype": dt})
                    k += 1
    n = 3000 if ctx.tier == "quick" else 200000
    for i in range(n):
        out.append({"id": f"r{i}", "i": i})
    for i in range(n // 10):
        out.append({"id": f"st{i}", "i": i, "stateful": True})
    return out


def _vec(osy, comps, unit, name="v"):
    return osy.Vector(*[np.array(c) for c in comps], unit=unit, name=name)


def _same_component(got, exp):
    """bit-identical values/dtype/shape and equal unit"""
    ga, ea = np.asarray(got.values), np.asarray(exp.values)
    if ga.dtype != ea.dtype or ga.shape != ea.shape:
        return f"dtype/shape {ga.dtype}{ga.shape} != {ea.dtype}{ea.shape}"
    if not np.array_equal(ga, ea, equal_nan=True if ga.dtype.kind == "f" else False):
        return f"values {ga.tolist()!r} != {ea.tolist()!r}"
    if got.unit != exp.unit:
        return f"unit {got.unit!s} != {exp.unit!s}"
    return None


def run_case(case, ctx, res):
    osy = ctx.osyris
    if case.get("stateful"):
        return _stateful(osy, ctx.rng("stateful", case["i"]), res)
    if case.get("fixed"):
        rng = np.random.default_rng(np.random.SeedSequence([20240209, 9, case["i"]]))
        kind, nvec, rel, dt1 = case["kind"], case["nvec"], case["rel"], case["dtype"]
        dt2 = dt1
    else:
        rng = ctx.rng(case["i"])
        kind = ["lift", "lift", "lift", "npbin", "unary", "unary", "concat", "mismatch", "norm", "dot", "dot",
                "cross", "cross", "logical"][int(rng.integers(0, 14))]
        nvec = int(rng.integers(1, 4))
        rel = None
        dt1, dt2 = gen.draw_dtype(rng), gen.draw_dtype(rng)
    if kind == "cross":
        nvec = 3
    f1, u1, f2, u2, rel = gen.draw_unit_pair(rng, rel)
    if not gen.float32_safe(osy, (dt1, dt2), (u1, u2)):
        dt1 = dt2 = "float64"
    shape = gen.draw_shape(rng)
    positive = kind == "unary"
    c1 = [gen.draw_values(rng, shape, dt1, small=True, positive=positive, nonzero=True) for _ in range(nvec)]
    c2 = [gen.draw_values(rng, shape, dt2, small=True, nonzero=True) for _ in range(nvec)]
    v = _vec(osy, c1, u1, "v")
    sig = {"kind": kind, "nvec": nvec, "dt": [dt1, dt2], "shape": list(shape), "units": [u1, u2], "rel": rel}
    res.digest_src = sig
    res.sample = dict(sig, v_x=c1[0])
    res.nontrivial = (u1 != u2 and kind in ("lift", "npbin", "dot", "cross", "concat")) or nvec < 3 or len(shape) != 1
    fn = globals()["_" + kind]
    fn(osy, rng, res, sig, v, c1, u1, c2, u2, dt1, dt2, nvec, shape)


def _same_quantity(got, exp, rt=0.0):
    """same shape and the same physical quantity (the unit it is expressed in may differ): used where the other
    operand stands on the left, where the component operation a - v.x is expressed in a's unit and (a - v).x in v's"""
    ga, ea = np.asarray(got.values), np.asarray(exp.values)
    if ga.shape != ea.shape:
        return f"shape {ga.shape} != {ea.shape}"
    if ga.dtype.kind == "b" or ea.dtype.kind == "b":
        return None if (ga.dtype == ea.dtype and np.array_equal(ga, ea)) else f"values {ga.tolist()!r} != {ea.tolist()!r}"
    return compare_quantity(ga, got.unit, Q.of(ea, exp.unit), max(rt, 16 * rtol_for(ga.dtype, ea.dtype)), None)


def _compare_lift(res, sig, label, out, comp_outs, nvec, physical=False, rt=0.0):
    """out: Outcome of the Vector call; comp_outs: Outcomes of the per-component Array calls"""
    res.count("lift-oracle")
    comp_ok = [o.ok for o in comp_outs]
    if not all(comp_ok):
        if out.ok and not any(comp_ok):
            res.violate("lift-no-raise", f"{label}: every component operation raises "
                        f"({comp_outs[0].describe()}) but the Vector operation returned a value", sig=sig)
        return
    if not out.ok:
        res.violate("lift-raised", f"{label}: component operations succeed but the Vector operation "
                    f"{out.describe()}", sig=sig, tb=out.tb)
        return
    r = out.value
    if type(r).__name__ != "Vector":
        res.violate("wrong-type", f"{label} returned {type(r).__name__}, expected Vector", sig=sig)
        return
    if r.nvec != nvec:
        res.violate("wrong-nvec", f"{label} returned {r.nvec} components, expected {nvec}", sig=sig)
        return
    for c, o in zip("xyz", comp_outs):
        msg = _same_quantity(getattr(r, c), o.value, rt) if physical else _same_component(getattr(r, c), o.value)
        if msg:
            res.violate("lift-component-differs", f"{label}: component {c}: {msg}", sig=sig)
            return


def _mk_rhs(osy, rng, kind, c2, u2, nvec):
    if kind == "vector":
        return _vec(osy, c2, u2, "w")
    if kind == "array":
        return osy.Array(values=np.array(c2[0]), unit=u2)
    if kind == "quantity":
        return np.array(c2[0]) * osy.units(u2)
    if kind == "ndarray":
        return np.array(c2[0])
    if kind == "float":
        return float(np.asarray(c2[0]).ravel()[0])
    return int(np.asarray(c2[0]).ravel()[0])


def _lift(osy, rng, res, sig, v, c1, u1, c2, u2, dt1, dt2, nvec, shape):
    op = BIN_NAMES[int(rng.integers(0, len(BIN_NAMES)))]
    kind = KINDS[int(rng.integers(0, len(KINDS)))]
    if kind in ("float", "int", "ndarray") and rng.random() < 0.6:
        # plain operands are only compatible with dimensionless vectors: make half of them so
        u1 = ""
        v = _vec(osy, c1, u1, "v")
    rhs = _mk_rhs(osy, rng, kind, c2, u2, nvec)
    # a number or an Array may also stand on the LEFT (k + v, a - v, a < v ...): reflected operators of Vector
    swapped = kind in ("float", "int", "array") and rng.random() < 0.3
    sig.update(op=op, rhs=kind, units=[u1, u2], other_on_the_left=swapped)
    before = (fp(v), fp(rhs))
    with np.errstate(all="ignore"):
        if swapped:
            res.tag("other-operand-on-the-left")
            out = attempt(BIN[op], rhs, v)
            if kind != "array" and op in ("add", "sub"):
                # Array has no reflected + and - for bare numbers (C02 promises k*a and k/a only); the Vector has:
                # the component oracle is the commuted operation
                comp_outs = [attempt((lambda a, k: a + k) if op == "add" else (lambda a, k: -(a - k)), getattr(v, c), rhs)
                             for c in "xyz"[:nvec]]
            else:
                comp_outs = [attempt(BIN[op], rhs, getattr(v, c)) for c in "xyz"[:nvec]]
        else:
            out = attempt(BIN[op], v, rhs)
            comp_outs = [attempt(BIN[op], getattr(v, c), getattr(rhs, c) if kind == "vector" else rhs)
                         for c in "xyz"[:nvec]]
    if (fp(v), fp(rhs)) != before:
        res.violate("operand-mutated", f"Vector {op} changed an operand", sig=sig)
    _compare_lift(res, sig, f"{kind} {op} Vector({nvec})" if swapped else f"Vector({nvec}) {op} {kind}", out, comp_outs, nvec,
                  physical=swapped, rt=32 * rtol_for(dt1, dt2))     # (either order converts one single-precision operand)


def _npbin(osy, rng, res, sig, v, c1, u1, c2, u2, dt1, dt2, nvec, shape):
    op = NPBIN_NAMES[int(rng.integers(0, len(NPBIN_NAMES)))]
    kind = ["vector", "vector", "array", "float"][int(rng.integers(0, 4))]
    rhs = _mk_rhs(osy, rng, kind, c2, u2, nvec)
    sig.update(op=op, rhs=kind)
    with np.errstate(all="ignore"):
        out = attempt(NPBIN[op], v, rhs)
        comp_outs = [attempt(NPBIN[op], getattr(v, c), getattr(rhs, c) if kind == "vector" else rhs)
                     for c in "xyz"[:nvec]]
    _compare_lift(res, sig, f"{op}(Vector({nvec}), {kind})", out, comp_outs, nvec)


def _unary(osy, rng, res, sig, v, c1, u1, c2, u2, dt1, dt2, nvec, shape):
    op = UNARY_NAMES[int(rng.integers(0, len(UNARY_NAMES)))]
    if np.dtype(dt1).kind in "iu" and op in ("pow-1",):
        op = "neg"
    sig.update(op=op)
    before = fp(v)
    with np.errstate(all="ignore"):
        out = attempt(UNARY[op], v)
        comp_outs = [attempt(UNARY[op], getattr(v, c)) for c in "xyz"[:nvec]]
    if fp(v) != before:
        res.violate("operand-mutated", f"{op} changed the Vector", sig=sig)
    _compare_lift(res, sig, f"{op}(Vector({nvec}))", out, comp_outs, nvec)


def _concat(osy, rng, res, sig, v, c1, u1, c2, u2, dt1, dt2, nvec, shape):
    if not shape:
        shape = (2,)
        c1 = [np.resize(c, shape) for c in c1]
        c2 = [np.resize(c, shape) for c in c2]
        v = _vec(osy, c1, u1)
    u2 = u1  # sequences of Vectors in one unit (mixed units are C10's subject)
    w = _vec(osy, c2, u2, "w")
    sig.update(op="np.concatenate", units=[u1, u2])
    out = attempt(np.concatenate, [v, w])
    comp_outs = [attempt(np.concatenate, [getattr(v, c), getattr(w, c)]) for c in "xyz"[:nvec]]
    _compare_lift(res, sig, f"np.concatenate([Vector({nvec})]*2)", out, comp_outs, nvec)


def _logical(osy, rng, res, sig, v, c1, u1, c2, u2, dt1, dt2, nvec, shape):
    b1 = [rng.random(shape) < 0.5 for _ in range(nvec)]
    b2 = [rng.random(shape) < 0.5 for _ in range(nvec)]
    a = osy.Vector(*[np.array(b) for b in b1])
    b = osy.Vector(*[np.array(x) for x in b2])
    opname = ["and", "or", "xor", "not"][int(rng.integers(0, 4))]
    f = {"and": operator.and_, "or": operator.or_, "xor": operator.xor}.get(opname)
    sig.update(op=opname)
    if opname == "not":
        out = attempt(operator.invert, a)
        comp_outs = [attempt(operator.invert, getattr(a, c)) for c in "xyz"[:nvec]]
    else:
        out = attempt(f, a, b)
        comp_outs = [attempt(f, getattr(a, c), getattr(b, c)) for c in "xyz"[:nvec]]
    _compare_lift(res, sig, f"Vector({nvec}) {opname}", out, comp_outs, nvec)


def _mismatch(osy, rng, res, sig, v, c1, u1, c2, u2, dt1, dt2, nvec, shape):
    other = [n for n in (1, 2, 3) if n != nvec][int(rng.integers(0, 2))]
    cc = [gen.draw_values(rng, shape, dt2, small=True, nonzero=True) for _ in range(other)]
    w = _vec(osy, cc, u1, "w")
    op = BIN_NAMES[int(rng.integers(0, len(BIN_NAMES)))]
    sig.update(op=op, other_nvec=other)
    res.nontrivial = True
    before = (fp(v), fp(w))
    out = attempt(BIN[op], v, w)
    res.count("nvec-mismatch-must-raise")
    if out.ok:
        res.violate("nvec-mismatch-accepted", f"Vector({nvec}) {op} Vector({other}) returned {str(out.value)[:100]}",
                    sig=sig)
    if (fp(v), fp(w)) != before:
        res.violate("operand-mutated", "rejected operation changed an operand", sig=sig)


def _norm(osy, rng, res, sig, v, c1, u1, c2, u2, dt1, dt2, nvec, shape):
    res.count("norm-oracle")
    before = fp(v)
    with np.errstate(all="ignore"):
        out = attempt(lambda: v.norm)
    if fp(v) != before:
        res.violate("operand-mutated", "norm changed the Vector", sig=sig)
    if not out.ok:
        res.violate("raised-unexpectedly", f"Vector({nvec}).norm {out.describe()}", sig=sig, tb=out.tb)
        return
    r = out.value
    if type(r).__name__ != "Array":
        res.violate("wrong-type", f"norm returned {type(r).__name__}", sig=sig)
        return
    sq = sum(np.asarray(c, dtype=np.longdouble) ** 2 for c in c1)
    exp = Q.of(np.sqrt(sq), v.unit)
    rt = rtol_for(dt1) if np.dtype(dt1).kind == "f" else rtol_for("float64")
    if np.dtype(dt1).kind in "iu":
        # integer components: squares are formed in the integer dtype; sqrt gives float64
        rt = 1e-9
    msg = compare_quantity(r.values, r.unit, exp, 4 * rt)
    if msg:
        mech = "norm-wrong"
        if nvec == 1 and np.any(np.asarray(r.values) < 0):
            mech = "norm-1-component-keeps-sign"
        res.violate(mech, f"Vector({nvec},{dt1},{u1!r}).norm: {msg}", sig=sig)


def _dot(osy, rng, res, sig, v, c1, u1, c2, u2, dt1, dt2, nvec, shape):
    w = _vec(osy, c2, u2, "w")
    A = [Q.of(c, v.unit) for c in c1]
    B = [Q.of(c, w.unit) for c in c2]
    before = (fp(v), fp(w))
    with np.errstate(all="ignore"):
        out = attempt(v.dot, w)
        out2 = attempt(w.dot, v)
    if (fp(v), fp(w)) != before:
        res.violate("operand-mutated", "dot changed an operand", sig=sig)
    res.count("dot-oracle")
    exp = Q(sum(a.v * b.v for a, b in zip(A, B)), dims_mul(A[0].dims, B[0].dims))
    cond = sum(np.abs(a.v * b.v) for a, b in zip(A, B))
    rt = 8 * rtol_for(dt1, dt2)
    for label, o in (("v.dot(w)", out), ("w.dot(v)", out2)):
        if not o.ok:
            res.violate("raised-unexpectedly", f"{label} ({u1!r},{u2!r}) {o.describe()}", sig=sig, tb=o.tb)
            return
        r = o.value
        if type(r).__name__ != "Array":
            res.violate("wrong-type", f"{label} returned {type(r).__name__}", sig=sig)
            return
        msg = compare_quantity(r.values, r.unit, exp, rt, cond)
        if msg:
            mech = "dot-wrong"
            s, d = scale_dims(r.unit)
            if u1 != u2 and d == exp.dims:
                mech = "dot-mixed-units-label"
            res.violate(mech, f"{label} with units {u1!r},{u2!r} ({dt1}/{dt2}, nvec {nvec}): {msg}; "
                        f"result labelled {r.unit!s}", sig=sig)
            return
    res.count("product-laws")  # symmetry a.b = b.a follows from both matching the oracle


def _cross(osy, rng, res, sig, v, c1, u1, c2, u2, dt1, dt2, nvec, shape):
    w = _vec(osy, c2, u2, "w")
    A = [Q.of(c, v.unit).v for c in c1]
    B = [Q.of(c, w.unit).v for c in c2]
    dims = dims_mul(Q.of(c1[0], v.unit).dims, Q.of(c2[0], w.unit).dims)
    before = (fp(v), fp(w))
    with np.errstate(all="ignore"):
        out = attempt(v.cross, w)
        out2 = attempt(w.cross, v)
    if (fp(v), fp(w)) != before:
        res.violate("operand-mutated", "cross changed an operand", sig=sig)
    res.count("cross-oracle")
    exp = [A[1] * B[2] - A[2] * B[1], A[2] * B[0] - A[0] * B[2], A[0] * B[1] - A[1] * B[0]]
    cond = [np.abs(A[1] * B[2]) + np.abs(A[2] * B[1]), np.abs(A[2] * B[0]) + np.abs(A[0] * B[2]),
            np.abs(A[0] * B[1]) + np.abs(A[1] * B[0])]
    rt = 8 * rtol_for(dt1, dt2)
    for label, o, sign in (("v.cross(w)", out, 1), ("w.cross(v)", out2, -1)):
        if not o.ok:
            res.violate("raised-unexpectedly", f"{label} ({u1!r},{u2!r}) {o.describe()}", sig=sig, tb=o.tb)
            return
        r = o.value
        if type(r).__name__ != "Vector" or r.nvec != 3:
            res.violate("wrong-type", f"{label} returned {type(r).__name__}", sig=sig)
            return
        for i, c in enumerate("xyz"):
            rc = getattr(r, c)
            msg = compare_quantity(rc.values, rc.unit, Q(sign * exp[i], dims), rt, cond[i])
            if msg:
                res.violate("cross-wrong", f"{label} component {c}, units {u1!r},{u2!r}: {msg}; labelled {rc.unit!s}",
                            sig=sig)
                return
    # laws on the returned objects themselves: a.(a x b) = 0, |a x b|^2 + (a.b)^2 = |a|^2 |b|^2
    res.count("product-laws")
    r = out.value
    with np.errstate(all="ignore"):
        tri = attempt(v.dot, r)
        ab = attempt(v.dot, w)
    if tri.ok and ab.ok:
        na2 = sum(a * a for a in A)
        nb2 = sum(b * b for b in B)
        scale = np.sqrt(na2) * np.sqrt(na2) * np.sqrt(nb2)
        t = Q.of(tri.value.values, tri.value.unit)
        if np.any(np.abs(t.v) > 64 * rt * (scale + 1e-300)):
            res.violate("law-triple-product", f"a.(a x b) = {np.asarray(t.v, float).tolist()!r} not ~0 "
                        f"(scale {np.asarray(scale, float).tolist()!r}); units {u1!r},{u2!r}", sig=sig)
        cr = [Q.of(getattr(r, c).values, getattr(r, c).unit).v for c in "xyz"]
        lhs = sum(x * x for x in cr) + Q.of(ab.value.values, ab.value.unit).v ** 2
        rhs = na2 * nb2
        if np.any(np.abs(lhs - rhs) > 64 * rt * np.abs(rhs)):
            res.violate("law-lagrange", f"|a x b|^2 + (a.b)^2 != |a|^2 |b|^2 with units {u1!r},{u2!r}", sig=sig)


def _stateful(osy, rng, res):
    """norm / dot / cross are functions of the components *at the time of the call*: interleave reads with
    in-place changes made through other references (older wrapper, slice view, component buffer, returned
    norm Array)"""
    nvec = int(rng.integers(1, 4))
    n = int(rng.integers(3, 7))
    # (not the dimensionless family: `x *= 0.5` on ONE component of a Vector in percent legitimately relabels that
    #  component percent**2 - same quantity - and leaves a Vector whose components disagree on the unit)
    u1 = gen.draw_unit(rng, gen.draw_family(rng, exclude=("dimensionless",)))
    comps = [gen.draw_values(rng, (n,), "float64", small=True, nonzero=True) for _ in range(nvec)]
    v = _vec(osy, [c.copy() for c in comps], u1, "v")
    old = v                  # an older reference to the same Vector
    steps = []
    res.nontrivial = True
    res.digest_src = {"stateful": True, "nvec": nvec, "n": n, "u": u1}

    def check(label):
        res.count("stateful-reads")
        # the components are the public attributes x, y, z as they are NOW (they may have been assigned since)
        live = [c for c in (old.x, old.y, old.z) if c is not None]
        cur = [np.asarray(c.values, dtype=np.longdouble) for c in live]
        exp = Q.of(np.sqrt(sum(c * c for c in cur)), old.unit)
        # arithmetic acts on those same components: 2*v and v.v
        with np.errstate(all="ignore"):
            dbl = attempt(lambda: old * 2.0)
            vv = attempt(lambda: old.dot(old))
        if not dbl.ok or not vv.ok:
            res.violate("raised-unexpectedly", f"{label} after {steps}: v * 2.0 / v.dot(v) {(dbl if not dbl.ok else vv).describe()}",
                        steps=steps)
            return None
        got = [c for c in (dbl.value.x, dbl.value.y, dbl.value.z) if c is not None]
        if len(got) != len(cur):
            res.violate("components-stale", f"{label} after {steps}: v has {len(cur)} components, v * 2.0 has {len(got)}", steps=steps)
            return None
        for ci, (g, c) in enumerate(zip(got, cur)):
            m0 = compare_quantity(g.values, g.unit, Q.of(2 * c, old.unit), 64 * rtol_for("float64"))
            if m0:
                res.violate("components-stale", f"{label} after {steps}: (v * 2.0).{'xyz'[ci]} is not twice the current component: {m0}",
                            steps=steps)
                return None
        m1 = compare_quantity(vv.value.values, vv.value.unit, Q(sum(c * c for c in cur) * np.longdouble(scale_dims(old.unit)[0]) ** 2,
                                                                   dims_mul(scale_dims(old.unit)[1], scale_dims(old.unit)[1])),
                              64 * rtol_for("float64"))
        if m1:
            res.violate("dot-stale", f"{label} after {steps}: v.dot(v) is not the sum of squares of the current components: {m1}",
                        steps=steps)
            return None
        with np.errstate(all="ignore"):
            o = attempt(lambda: old.norm)
        if not o.ok:
            res.violate("raised-unexpectedly", f"{label}: norm {o.describe()}", steps=steps)
            return None
        msg = compare_quantity(o.value.values, o.value.unit, exp, 64 * rtol_for("float64"))
        if msg:
            res.violate("norm-stale", f"{label} after {steps}: norm is not the Euclidean norm of the current components: {msg}",
                        steps=steps)
            return None
        if len(cur) == 3:
            w = _vec(osy, [np.ones(n), np.zeros(n), np.zeros(n)], "")
            d = attempt(lambda: old.dot(w))
            if d.ok:
                m2 = compare_quantity(d.value.values, d.value.unit, Q.of(cur[0], old.unit), 64 * rtol_for("float64"), np.abs(cur[0]))
                if m2:
                    res.violate("dot-stale", f"{label} after {steps}: v.dot(e_x) is not the current x component: {m2}", steps=steps)
                    return None
        return o.value
    for step in range(int(rng.integers(2, 7))):
        r = check(f"read {step}")
        if r is None:
            return
        op = ["iop-wrapper", "view", "buffer", "scale-returned-norm", "component-iop", "unit-rebind", "assign-component",
              "assign-component"][int(rng.integers(0, 8))]
        steps.append(op)
        if op == "assign-component":
            # x, y, z are public, assignable attributes: replace one, or give a 1-/2-component Vector its next component
            have = [c for c in "xyz" if getattr(old, c) is not None]
            tgt = "xyz"[len(have)] if (len(have) < 3 and rng.random() < 0.5) else have[int(rng.integers(0, len(have)))]
            steps[-1] = f"assign-{tgt}"
            setattr(old, tgt, osy.Array(values=gen.draw_values(rng, (n,), "float64", small=True, nonzero=True), unit=str(old.x.unit)))
            v = old
            res.tag("component-assigned")
            continue
        if op == "iop-wrapper":
            v *= 2.0                         # Python rebinds v to the returned wrapper; `old` shares the buffers
        elif op == "view":
            part = old[1:3]
            part *= 10.0
        elif op == "buffer":
            live = [c for c in (old.x, old.y, old.z) if c is not None]
            c = live[int(rng.integers(0, len(live)))]
            c.values[int(rng.integers(0, n))] = float(rng.integers(1, 50))
        elif op == "scale-returned-norm":
            r *= 3.0                         # the caller owns the returned Array
        elif op == "component-iop":
            old.x *= 0.5
        else:
            pass
    check("final read")
    res.sample = {"nvec": nvec, "unit": u1, "steps": steps}
