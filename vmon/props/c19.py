"""C19 - plot calls do not modify their inputs; per-layer options override call options.

* fingerprints (vmon.snapshot) of every argument object before/after each call, also for calls that raise,
  and comparison of a second identical call with the first;
* precedence lattice: each option set at neither / layer / call / both-different level; the effective value is
  observed in Plot.layers[k]['mode'|'params'], in the data (operation) or in Plot.x/Plot.y (bins, weights).
"""
import numpy as np

from .. import mesh_oracle as mo
from ..io_monitors import quiet
from ..snapshot import diff, fp
from ..util import attempt

TITLE = "Plot calls do not modify their inputs; per-layer options override call options"
RULE = (
    "precedence: exhaustive over option in {mode, norm, vmin, vmax, operation, cmap (extra keyword), bins, "
    "weights} x setting in {neither, layer, call, both-different} x every function that accepts the option "
    "(map thin/thick, histogram2d, histogram1d), plus random joint settings; no-mutation / same-result: case i "
    "-> rng(seed, C19, i) draws a sequence of 2-4 calls of map (thin, thick), histogram2d, histogram1d, scatter, "
    "plot sharing argument objects (one resolution dict reused for thin and thick maps, the same Layer objects, "
    "origin, limits), each call made twice.  Non-trivial = an argument object is used by >=2 calls (sequences) / "
    "the option is set at both levels with different values (precedence); distinct = distinct settings."
)
ASSUMPTIONS = ["only string norms are judged (a user-supplied Normalize instance is autoscaled by matplotlib itself)",
               "figures are rendered with the Agg backend and closed after every call"]

OPTS_MAP = ["mode", "norm", "vmin", "vmax", "operation", "cmap", "vmin0", "vmax0"]
OPTS_H2 = ["mode", "norm", "vmin", "vmax", "operation", "cmap", "vmin0", "vmax0"]
OPTS_H1 = ["bins", "weights", "alpha"]
SETTINGS = ["neither", "layer", "call", "both"]
VALUES = {   # (value A, value B): A is given to the layer, B to the call when both are set
    "mode": ("contourf", "contour"), "norm": ("log", "linear"), "vmin": (2.0, 5.0), "vmax": (700.0, 900.0),
    "operation": ("mean", "sum"), "cmap": ("viridis", "magma"), "bins": (7, 13), "alpha": (0.5, 0.8),
    # values that are set but falsy: "set" means "is not None"
    "vmin0": (0.0, 5.0), "vmax0": (0, 900.0),
}
ALIAS = {"vmin0": "vmin", "vmax0": "vmax"}


def plan(tier):
    return {"shards": 16, "timeout": 1500 if tier == "quick" else 5 * 3600,
            "required_monitors": ["inputs-unchanged", "same-result-twice", "precedence-map", "precedence-hist2d",
                                  "precedence-hist1d"],
            "required_tags": ["shared-resolution-dict", "shared-layer", "raising-call", "thick-map", "scatter", "plot1d",
                              "layer-component-or-colour", "two-layers-one-sets-the-option"]}


def cases(ctx):
    out = []
    for fn, opts in (("map", OPTS_MAP), ("mapthick", OPTS_MAP), ("hist2d", OPTS_H2), ("hist1d", OPTS_H1)):
        for opt in opts:
            for st in SETTINGS:
                out.append({"id": f"prec-{fn}-{opt}-{st}", "kind": "prec", "fn": fn, "opt": opt, "setting": st})
    # two layers in one call: an option set on one of them only, with and without a call-level value - the call-level value
    # (or the default) applies to the layer that leaves the option unset, whichever comes first
    for fn, opts in (("map", ["mode", "norm", "vmin", "vmax", "cmap"]), ("hist2d", ["mode", "norm", "vmin", "vmax", "cmap"]),
                     ("hist1d", ["bins", "alpha"])):
        for opt in opts:
            for which in (0, 1):
                for call in (False, True):
                    out.append({"id": f"prec2-{fn}-{opt}-L{which}-{'call' if call else 'nocall'}", "kind": "prec2", "fn": fn,
                                "opt": opt, "which": which, "call": call})
    n = 120 if ctx.tier == "quick" else 5000
    out += [{"id": f"j{i}", "kind": "joint", "i": i} for i in range(n)]
    m = 180 if ctx.tier == "quick" else 5000
    out += [{"id": f"q{i}", "kind": "seq", "i": i} for i in range(m)]
    return out


def close_figs():
    import matplotlib.pyplot as plt
    plt.close("all")


def small_mesh(osy, rng):
    mesh = mo.make_mesh(rng, ndim=3, style="uniform", max_cells=600)
    if len(mesh["pos"]) > 600:
        g = (np.arange(4) + 0.5) / 4
        pos = np.stack(np.meshgrid(g, g, g, indexing="ij"), axis=-1).reshape(-1, 3)
        mesh = {"ndim": 3, "pos": pos, "size": np.full(len(pos), 0.25), "level": np.full(len(pos), 2), "style": "uniform"}
    dg = mo.build_group(osy, mesh, "au", 1.0, rng)
    dg["temp"] = osy.Array(values=rng.integers(10, 600, size=len(mesh["pos"])).astype(float), unit="K")
    return mesh, dg


def effective(opt, setting, default):
    a, b = VALUES[opt]
    return {"neither": default, "layer": a, "call": b, "both": a}[setting]


def norm_kind(n):
    return type(n).__name__


def run_case(case, ctx, res):
    osy = ctx.osyris
    try:
        if case["kind"] == "prec":
            rng = np.random.default_rng(np.random.SeedSequence([20240219, 19, abs(hash(case["id"])) % 2**31]))
            _prec(osy, rng, res, case["fn"], {case["opt"]: case["setting"]})
        elif case["kind"] == "prec2":
            rng = np.random.default_rng(np.random.SeedSequence([20240219, 192, abs(hash(case["id"])) % 2**31]))
            _prec2(osy, rng, res, case["fn"], case["opt"], case["which"], case["call"])
        elif case["kind"] == "joint":
            rng = ctx.rng("joint", case["i"])
            fn = ["map", "mapthick", "hist2d", "hist1d"][int(rng.integers(0, 4))]
            opts = {"map": OPTS_MAP, "mapthick": OPTS_MAP, "hist2d": OPTS_H2, "hist1d": OPTS_H1}[fn]
            st = {o: SETTINGS[int(rng.integers(0, 4))] for o in opts}
            _prec(osy, rng, res, fn, st)
        else:
            _sequence(osy, ctx.rng("seq", case["i"]), res, case["i"])
    finally:
        close_figs()


# ----------------------------------------------------------------------------- precedence
def _prec(osy, rng, res, fn, settings):
    from osyris.core.layer import Layer
    res.digest_src = {"fn": fn, "settings": settings}
    res.sample = {"function": fn, "settings": settings}
    res.nontrivial = any(s == "both" for s in settings.values())
    lkw, ckw = {}, {}
    for opt, st in settings.items():
        if opt == "weights":
            continue          # Arrays, built below
        a, b = VALUES[opt]
        real = ALIAS.get(opt, opt)
        if real != opt and real in settings:
            continue          # the plain variant of this option is part of the same joint setting
        if st in ("layer", "both"):
            lkw[real] = a
        if st in ("call", "both"):
            ckw[real] = b
    if fn in ("map", "mapthick"):
        mesh, dg = small_mesh(osy, rng)
        lay = dg.layer("temp", **lkw)
        kw = dict(direction="z", dx=0.8 * osy.units("au"), origin=osy.Vector(0.3712, 0.4139, 0.4391, unit="au"),
                  resolution=8, plot=False, **ckw)
        if fn == "mapthick":
            kw["dz"] = 0.6 * osy.units("au")
        before = fp([lay, dg, kw["origin"]])
        with quiet():
            o = attempt(lambda: osy.map(lay, **kw))
        res.count("precedence-map")
        if fp([lay, dg, kw["origin"]]) != before:
            res.violate("input-modified", f"{fn} with layer options {lkw} and call options {ckw} modified its layer/group")
        if not o.ok:
            res.violate("plot-raised", f"{fn}(layer {lkw}, call {ckw}) {o.describe()}", tb=o.tb)
            return
        got = o.value.layers[0]
        _judge_common(res, fn, settings, got, lkw, ckw)
        if "operation" in settings and fn == "mapthick":
            # data must follow the effective operation: recompute both ways through osyris itself
            eff = effective("operation", settings["operation"], "sum")
            with quiet():
                ref = osy.map(dg.layer("temp"), **{**{k: v for k, v in kw.items() if k != "operation"}, "operation": eff})
            d1, d2 = np.ma.filled(got["data"], np.nan), np.ma.filled(ref.layers[0]["data"], np.nan)
            if not np.allclose(d1, d2, rtol=1e-12, equal_nan=True) or str(got["unit"]) != str(ref.layers[0]["unit"]):
                other = "sum" if eff == "mean" else "mean"
                with quiet():
                    alt = osy.map(dg.layer("temp"), **{**{k: v for k, v in kw.items() if k != "operation"}, "operation": other})
                mech = "precedence-wrong"
                if settings["operation"] in ("layer", "both") and np.allclose(d1, np.ma.filled(alt.layers[0]["data"], np.nan), equal_nan=True):
                    mech = "map-layer-operation-ignored"
                res.violate(mech, f"thick map: layer operation={lkw.get('operation')}, call operation={ckw.get('operation')}: the "
                            f"data/unit are not those of operation {eff!r} (unit {got['unit']!s} vs {ref.layers[0]['unit']!s})")
    elif fn == "hist2d":
        n = 400
        x = osy.Array(values=rng.uniform(0, 10, n), unit="cm", name="x")
        y = osy.Array(values=rng.uniform(0, 10, n), unit="s", name="y")
        w = osy.Array(values=rng.integers(1, 600, size=n).astype(float), unit="K", name="w")
        lay = Layer(w, **lkw)
        before = fp([x, y, w, lay])
        with quiet():
            o = attempt(lambda: osy.histogram2d(x, y, lay, resolution=6, plot=False, **ckw))
        res.count("precedence-hist2d")
        if fp([x, y, w, lay]) != before:
            res.violate("input-modified", f"histogram2d with layer options {lkw} and call options {ckw} modified an input")
        if not o.ok:
            res.violate("plot-raised", f"histogram2d(layer {lkw}, call {ckw}) {o.describe()}", tb=o.tb)
            return
        got = o.value.layers[0]
        _judge_common(res, fn, settings, got, lkw, ckw)
        if "operation" in settings:
            eff = effective("operation", settings["operation"], "sum")
            with quiet():
                ref = osy.histogram2d(x, y, Layer(w), resolution=6, plot=False, operation=eff)
            if not np.allclose(np.ma.filled(got["data"], np.nan), np.ma.filled(ref.layers[0]["data"], np.nan), equal_nan=True):
                res.violate("precedence-wrong", f"histogram2d: layer operation={lkw.get('operation')}, call operation="
                            f"{ckw.get('operation')}: data are not those of operation {eff!r}")
    else:   # histogram1d: bins / weights / alpha
        n = 300
        xv = rng.uniform(0, 10, n)
        x = osy.Array(values=xv, unit="cm", name="x")
        w1 = osy.Array(values=rng.integers(1, 9, size=n).astype(float), name="w1")
        w2 = osy.Array(values=rng.integers(1, 9, size=n).astype(float) * 10, name="w2")
        if "weights" in settings:
            st = settings["weights"]
            if st in ("layer", "both"):
                lkw["weights"] = w1
            if st in ("call", "both"):
                ckw["weights"] = w2
        lay = Layer(x, **lkw)
        before = fp([x, w1, w2, lay])
        with quiet():
            o = attempt(lambda: osy.histogram1d(lay, **ckw))
        res.count("precedence-hist1d")
        if fp([x, w1, w2, lay]) != before:
            res.violate("input-modified", f"histogram1d with layer options {list(lkw)} and call options {list(ckw)} modified an input: "
                        f"{diff(before, fp([x, w1, w2, lay]))}")
        if not o.ok:
            res.violate("plot-raised", f"histogram1d(layer {list(lkw)}, call {list(ckw)}) {o.describe()}", tb=o.tb)
            return
        nb = effective("bins", settings.get("bins", "neither"), 50)
        wsel = {"neither": None, "layer": w1, "call": w2, "both": w1}[settings.get("weights", "neither")]
        edges = np.linspace(xv.min(), xv.max(), nb + 1)
        exp, _ = np.histogram(xv, bins=edges, weights=None if wsel is None else wsel.values)
        gy = np.asarray(o.value.y, dtype=float)
        gx = np.asarray(o.value.x, dtype=float)
        if gy.shape != exp.shape or not np.allclose(gy, exp) or not np.allclose(gx, 0.5 * (edges[1:] + edges[:-1])):
            res.violate("precedence-wrong", f"histogram1d: bins layer={lkw.get('bins')} call={ckw.get('bins')}, weights "
                        f"{settings.get('weights', 'neither')}: Plot.y has {gy.shape[0]} bins summing to {gy.sum()!r}, expected "
                        f"{nb} bins summing to {float(exp.sum())!r}")
        if "alpha" in settings:
            eff = effective("alpha", settings["alpha"], None)
            patches = o.value.ax.patches
            got_alpha = patches[0].get_alpha() if patches else None
            if got_alpha != eff:
                res.violate("precedence-wrong", f"histogram1d: alpha layer={lkw.get('alpha')} call={ckw.get('alpha')}: bars drawn with "
                            f"alpha {got_alpha!r}, expected {eff!r}")


def _prec2(osy, rng, res, fn, opt, which, call):
    """two layers; layer `which` sets the option (value A), the other leaves it unset; the call passes value B or nothing"""
    from osyris.core.layer import Layer
    a, b = VALUES[opt]
    lkws = [{opt: a} if k == which else {} for k in (0, 1)]
    ckw = {opt: b} if call else {}
    sets = ["both" if (k == which and call) else "layer" if k == which else "call" if call else "neither" for k in (0, 1)]
    res.digest_src = {"fn": fn, "opt": opt, "which": which, "call": call}
    res.sample = {"function": fn, "option": opt, "set_on_layer": which, "call_level_value": call, "expected_per_layer": sets}
    res.nontrivial = True
    res.tag("two-layers-one-sets-the-option")
    if fn == "map":
        mesh, dg = small_mesh(osy, rng)
        lays = [dg.layer("temp", **lkws[0]), dg.layer("tag", **lkws[1])]
        kw = dict(direction="z", dx=0.8 * osy.units("au"), origin=osy.Vector(0.3712, 0.4139, 0.4391, unit="au"), resolution=8,
                  plot=False, **ckw)
        before = fp([lays, dg])
        with quiet():
            o = attempt(lambda: osy.map(*lays, **kw))
        res.count("precedence-map")
        inputs_after = fp([lays, dg])
    elif fn == "hist2d":
        n = 300
        x = osy.Array(values=rng.uniform(0, 10, n), unit="cm", name="x")
        y = osy.Array(values=rng.uniform(0, 10, n), unit="s", name="y")
        ws = [osy.Array(values=rng.integers(1, 600, size=n).astype(float), unit="K", name=f"w{k}") for k in (0, 1)]
        lays = [Layer(ws[0], **lkws[0]), Layer(ws[1], **lkws[1])]
        before = fp([x, y, ws, lays])
        with quiet():
            o = attempt(lambda: osy.histogram2d(x, y, *lays, resolution=6, plot=False, **ckw))
        res.count("precedence-hist2d")
        inputs_after = fp([x, y, ws, lays])
    else:
        n = 300
        xs = [osy.Array(values=rng.uniform(0, 10, n), unit="cm", name=f"x{k}") for k in (0, 1)]
        lays = [Layer(xs[0], **lkws[0]), Layer(xs[1], **lkws[1])]
        before = fp([xs, lays])
        with quiet():
            o = attempt(lambda: osy.histogram1d(*lays, **ckw))
        res.count("precedence-hist1d")
        inputs_after = fp([xs, lays])
    label = f"{fn} with two layers, {opt}={a!r} on layer {which} only, call-level {opt}={'%r' % (b,) if call else 'not given'}"
    if inputs_after != before:
        res.violate("input-modified", f"{label}: an input was modified")
    if not o.ok:
        res.violate("plot-raised", f"{label}: {o.describe()}", tb=o.tb)
        return
    if fn in ("map", "hist2d"):
        got = o.value.layers
        if len(got) != 2:
            res.violate("precedence-wrong", f"{label}: {len(got)} layers returned")
            return
        for k in (0, 1):
            _judge_common(res, f"{label} [layer {k}]", {opt: sets[k]}, got[k], lkws[k], ckw)
    else:
        eff = [effective(opt, sets[k], 50 if opt == "bins" else None) for k in (0, 1)]
        conts = list(o.value.ax.containers)
        if len(conts) != 2:
            res.violate("precedence-wrong", f"{label}: {len(conts)} bar containers drawn for two layers")
            return
        if opt == "bins":
            gotb = [len(c) for c in conts]
            if gotb != eff:
                res.violate("precedence-wrong", f"{label}: layers drawn with {gotb} bins, expected {eff}")
        else:
            gota = [c.patches[0].get_alpha() if len(c) else None for c in conts]
            if gota != eff:
                res.violate("precedence-wrong", f"{label}: layers drawn with alpha {gota}, expected {eff}")


def _judge_common(res, fn, settings, got, lkw, ckw):
    """mode / norm / vmin / vmax / cmap as seen in Plot.layers[0]"""
    if "mode" in settings:
        eff = effective("mode", settings["mode"], None)
        if got["mode"] != eff:
            res.violate("precedence-wrong", f"{fn}: mode layer={lkw.get('mode')} call={ckw.get('mode')}: effective {got['mode']!r}, expected {eff!r}")
    nobj = got["params"].get("norm")
    if "norm" in settings:
        eff = effective("norm", settings["norm"], None)
        want = {"log": "LogNorm", "linear": "Normalize", None: "Normalize"}[eff]
        if norm_kind(nobj) != want:
            res.violate("precedence-wrong", f"{fn}: norm layer={lkw.get('norm')} call={ckw.get('norm')}: {norm_kind(nobj)}, expected {want}")
    for key in ("vmin", "vmax", "vmin0", "vmax0"):
        opt = ALIAS.get(key, key)
        if key in settings and not (key != opt and opt in settings):
            eff = effective(key, settings[key], None)
            if getattr(nobj, opt, "missing") != eff or (eff is not None and getattr(nobj, opt) is None):
                res.violate("precedence-wrong", f"{fn}: {opt} layer={lkw.get(opt)} call={ckw.get(opt)}: norm.{opt} = "
                            f"{getattr(nobj, opt, None)!r}, expected {eff!r}")
    if "cmap" in settings:
        eff = effective("cmap", settings["cmap"], None)
        if got["params"].get("cmap") != eff:
            res.violate("precedence-wrong", f"{fn}: cmap layer={lkw.get('cmap')} call={ckw.get('cmap')}: params['cmap'] = "
                        f"{got['params'].get('cmap')!r}, expected {eff!r}")


# ----------------------------------------------------------------------------- sequences sharing arguments
def plot_data(p):
    """comparable content of a Plot"""
    out = [fp(None if p.x is None else np.asarray(p.x)), fp(None if p.y is None else np.asarray(p.y))]
    lays = p.layers if isinstance(p.layers, list) else ([p.layers] if p.layers else [])
    for lay in lays:
        d = lay.get("data")
        if d is not None:
            out.append(fp(np.ma.filled(np.ma.asarray(d, dtype=float), np.nan)))
        out.append((lay.get("mode"), str(lay.get("unit")), lay.get("name")))
        for k in ("x", "y"):
            if k in lay and hasattr(lay[k], "values"):
                out.append(fp(lay[k]))
    return out


def _sequence(osy, rng, res, i):
    from osyris.core.layer import Layer
    mesh, dg = small_mesh(osy, rng)
    shared_res = {"x": int(rng.integers(4, 12))}
    if rng.random() < 0.5:
        shared_res["y"] = int(rng.integers(4, 12))
    origin = osy.Vector(0.3712, 0.4139, 0.4391, unit="au")   # generic: no sample point on a cell face
    lay_t = dg.layer("temp", norm="log", vmin=1.0)
    lay_v = dg.layer("velocity", mode="vec")
    n = 200
    xa = osy.Array(values=rng.uniform(1, 10, n), unit="cm", name="xa")
    ya = osy.Array(values=rng.uniform(1, 10, n), unit="g", name="ya")
    wa = osy.Array(values=rng.integers(1, 9, size=n).astype(float), unit="K", name="wa")
    hl = Layer(wa, operation="mean", cmap="magma")
    lim = 2.0 * osy.units("cm")
    # an overlay of points (sinks) drawn on the map: a scatter-mode Layer with per-point colours and a physical size
    sp = rng.uniform(0.2, 0.6, size=(6, 3))
    sp[:3, 2] = 0.4391                         # three of them in the plane of the z-map, three off-plane
    sinks = osy.Vector(sp[:, 0].copy(), sp[:, 1].copy(), sp[:, 2].copy(), unit="au", name="position")
    lay_s = Layer(sinks, mode="scatter", c=osy.Array(values=np.arange(6.0), unit="M_sun", name="msink"),
                  s=0.02 * osy.units("au"), cmap="magma")
    edges = np.linspace(1.0, 10.0, 8)
    xb = osy.Array(values=rng.uniform(1, 10, n), unit="mm", name="xb")
    yb = osy.Array(values=rng.uniform(1, 10, n), unit="g", name="yb")
    xc = osy.Array(values=rng.uniform(1, 10, n), unit="cm", name="xc")    # (scatter wants x and y in the very same unit)
    size_arr = osy.Array(values=rng.uniform(1, 30, n), unit="mm", name="sz")
    vlim = 2.0 * osy.units("K")
    lay_vx = dg.layer("velocity").x
    lay_vc = dg.layer("velocity", mode="vec", color=dg["temp"])
    lay_s0 = Layer(sinks, mode="scatter")
    lay_s1 = Layer(sinks, mode="scatter", s=20.0, c="red")
    size_plain = osy.Array(values=rng.uniform(1, 30, n), name="sz0")
    objs = {"lay_s0": lay_s0, "lay_s1": lay_s1, "size_plain": size_plain, "edges": edges, "xc": xc, "xb": xb, "yb": yb, "size_arr": size_arr, "vlim": vlim, "lay_vx": lay_vx, "lay_vc": lay_vc,
            "dg": dg, "res": shared_res, "origin": origin, "lay_t": lay_t, "lay_v": lay_v, "xa": xa, "ya": ya, "wa": wa,
            "hl": hl, "lim": lim, "lay_s": lay_s, "sinks": sinks}
    calls = {
        "map-thin": lambda: osy.map(lay_t, direction="z", dx=0.7 * osy.units("au"), origin=origin, resolution=shared_res, plot=False),
        "map-thick": lambda: osy.map(lay_t, direction="x", dx=0.7 * osy.units("au"), dz=0.4 * osy.units("au"), origin=origin,
                                     resolution=shared_res, operation="mean", plot=False),
        # (rendered vector layers need >= 16 pixels per side: the quiver wrapper strides by round(n/32))
        "map-vec-plot": lambda: osy.map(lay_t, lay_v, direction="y", dx=0.9 * osy.units("au"), origin=origin, resolution=32,
                                        plot=True),
        "map-scatter-overlay": lambda: osy.map(lay_t, lay_s, direction="z", dx=0.7 * osy.units("au"), origin=origin, resolution=24,
                                               plot=True),
        "map-bad-layer": lambda: osy.map(dg["temp"], direction="z", resolution=shared_res, plot=False),
        "hist2d": lambda: osy.histogram2d(xa, ya, hl, resolution=8, xmin=lim, plot=False),
        "hist2d-plot": lambda: osy.histogram2d(xa, ya, hl, wa, resolution=8, logx=True, plot=True),
        "hist1d": lambda: osy.histogram1d(xa, Layer(ya, bins=9), bins=12, weights=wa),
        "scatter": lambda: osy.scatter(xa, ya, color=wa, size=3.0, norm="log"),
        "plot": lambda: osy.plot(xa, ya, color="k"),
        "plot-dict": lambda: osy.plot({"x": xa, "y": ya}, marker="o"),
        # further argument shapes of the same functions
        "hist2d-loglog": lambda: osy.histogram2d(xa, ya, hl, resolution=8, loglog=True, plot=False),
        "hist1d-edges": lambda: osy.histogram1d(Layer(xa, bins=edges), Layer(xb, weights=wa), bins=5, logx=True),
        "hist1d-loglog": lambda: osy.histogram1d(xa, bins=6, loglog=True),
        "plot-multi": lambda: osy.plot(xa, ya, yb, loglog=True, legend=True),
        "plot-dicts": lambda: osy.plot({"x": xa, "y": ya}, {"x": xb, "y": yb}, ls="--"),
        "plot-unit-mismatch": lambda: osy.plot(xa, ya, wa),
        "plot-y-only": lambda: osy.plot(ya),
        "scatter-sized": lambda: osy.scatter(xa, xc, color="r", size=size_arr, loglog=True),
        "scatter-size-unit-mismatch": lambda: osy.scatter(xa, ya, size=size_arr),
        "scatter-quantity-size": lambda: osy.scatter(xa, xc, color=wa, size=0.3 * osy.units("mm"), vmin=2.0, norm="symlog"),
        "map-component": lambda: osy.map(lay_vx, lay_t, direction="z", dx=0.7 * osy.units("au"), origin=origin, resolution=shared_res,
                                         plot=False),
        "map-vec-colour": lambda: osy.map(lay_vc, direction="z", dx=0.9 * osy.units("au"), origin=origin, resolution=16, plot=False),
        "map-scatter-overlay-plain": lambda: osy.map(lay_t, lay_s0, direction="z", dx=0.7 * osy.units("au"), origin=origin, resolution=24,
                                                     plot=True),
        "map-scatter-overlay-float-size": lambda: osy.map(lay_t, lay_s1, direction="z", dx=0.7 * osy.units("au"), origin=origin,
                                                          resolution=24, plot=True),
        "scatter-limits": lambda: osy.scatter(xa, ya, xmin=2.0, xmax=8.0, ymin=1.5, ymax=9.0),
        "scatter-dimensionless-size": lambda: osy.scatter(xa, xc, size=size_plain),
        "map-symlog-plot": lambda: osy.map(dg.layer("temp", norm="symlog", cbar=False), direction="z", dx=0.7 * osy.units("au"),
                                           origin=origin, resolution=shared_res, plot=True),
    }
    names = list(calls)
    k = int(rng.integers(2, 5))
    seq = [names[int(rng.integers(0, len(names)))] for _ in range(k)]
    if i % 4 == 0:
        seq = ["map-thin", "map-thick", "map-thin"]      # one resolution dict for thin and thick maps
    if i % 4 == 1:
        seq = ["map-scatter-overlay", "map-thin", "map-scatter-overlay"]
    res.digest_src = {"seq": seq, "res": dict(shared_res)}
    res.sample = {"calls": seq, "shared_resolution": dict(shared_res)}
    uses_res = sum(1 for s in seq if s.startswith("map"))
    res.nontrivial = len(seq) >= 2
    if uses_res >= 2:
        res.tag("shared-resolution-dict", "shared-layer")
    first_results = {}
    for step, name in enumerate(seq):
        if name == "map-thick":
            res.tag("thick-map")
        if name == "scatter":
            res.tag("scatter")
        if name.startswith("plot"):
            res.tag("plot1d")
        if name in ("map-component", "map-vec-colour"):
            res.tag("layer-component-or-colour")
        for rep in range(2):
            before = fp(objs)
            with quiet(), np.errstate(all="ignore"):
                import warnings
                with warnings.catch_warnings():
                    warnings.simplefilter("ignore")
                    o = attempt(calls[name])
            after = fp(objs)
            res.count("inputs-unchanged")
            if after != before:
                d = diff(before, after)
                mech = "input-modified"
                if "res" in str(d) or fp(shared_res) != dict(before[1])[repr("res")] if False else False:
                    mech = "resolution-dict-mutated"
                if fp(shared_res) != fp({k2: v for k2, v in res.sample["shared_resolution"].items()}):
                    mech = "resolution-dict-mutated"
                res.violate(mech, f"call {step} {name} (repetition {rep}) in {seq}: an argument object was modified: {d}; "
                            f"resolution dict now {shared_res}")
                close_figs()
                return
            if not o.ok:
                res.tag("raising-call")
                if name not in ("map-bad-layer", "plot-unit-mismatch", "scatter-size-unit-mismatch"):
                    res.violate("plot-raised", f"call {step} {name} in {seq}: {o.describe()}", tb=o.tb)
                    close_figs()
                    return
                continue
            data = plot_data(o.value)
            key = name
            res.count("same-result-twice")
            if key in first_results and first_results[key] != data:
                res.violate("result-depends-on-history", f"call {step} {name} (repetition {rep}) in {seq}: returns different data than "
                            f"the first identical call: {diff(first_results[key], data)}")
                close_figs()
                return
            first_results.setdefault(key, data)
            close_figs()
