"""C20 - Datagroup and Dataset behave as dictionaries; equality is by content.

History + executable sequential model: every operation is applied to the real
container and to a Python dict; after every step the complete observable state
(key order, len, membership, value identity, item names, shapes) is compared.
Equality: model = same key set and element-wise equal quantities (vmon.unitsref).
"""
import copy

import numpy as np

from .. import gen
from ..snapshot import fp
from ..unitsref import Q, dims_close, scale_dims
from ..util import attempt

TITLE = "Datagroup and Dataset behave as dictionaries; equality is by content"
RULE = (
    "history i -> rng(seed, C20, i): up to 15 operations from {set new, replace, set mis-shaped (must be "
    "rejected), set non-Datagroup into a Dataset (must be rejected), del, pop, get, update(dict), "
    "update(kwargs), clear, copy, iterate, len, in, keys/values/items} over keys a..d on a Datagroup or a "
    "Dataset, mirrored on a dict; plus equality pairs (identical, same quantity in other units, one element "
    "different, all different, different keys, different key order, empty members, 0-d members, Vector "
    "members).  Non-trivial history = contains a replacement of an existing key and a rejected insertion; "
    "non-trivial equality pair = differs in exactly one element or equal only after unit conversion; "
    "distinct = distinct operation sequences / pair descriptions."
)
ASSUMPTIONS = [
    "get(key, default) and pop(key) have osyris' own signatures (two / one positional argument)",
    "comparing members of incompatible dimensions may raise or return False (both mean 'not equal')",
]

KEYS = ["a", "b", "c", "d"]
EXACT_PAIRS = [("cm", "m"), ("m", "km"), ("g", "kg"), ("cm", "km"), ("s", "day"), ("cm/s", "km/s"),
               ("erg", "J"), ("mm", "m"), ("yr", "kyr"), ("erg/s", "W")]


def plan(tier):
    return {"shards": 16, "timeout": 900 if tier == "quick" else 4 * 3600,
            "required_monitors": ["dict-model-steps", "rejected-insertion-leaves-state", "equality-model",
                                  "dataset-model-steps"]}


def cases(ctx):
    out = []
    n = 3000 if ctx.tier == "quick" else 200000
    for i in range(n):
        out.append({"id": f"h{i}", "kind": "history", "i": i, "container": "datagroup" if i % 3 else "dataset"})
    for j, name in enumerate(EQ_FIXED):
        out.append({"id": f"eqfix-{name}", "kind": "eqfixed", "name": name, "i": j})
    m = 2000 if ctx.tier == "quick" else 100000
    for i in range(m):
        out.append({"id": f"e{i}", "kind": "equality", "i": i})
    out.append({"id": "contracts-repo-tests", "kind": "contracts", "i": 0})
    return out


def run_case(case, ctx, res):
    if case.get("kind") == "contracts":
        from .. import contracts
        return contracts.judge_repo_tests(res, ctx, ["test_datagroup.py", "test_dataset.py"], ("Datagroup.__setitem__", "Dataset.__setitem__"))
    if case["kind"] == "history":
        return _history(case, ctx, res)
    if case["kind"] == "eqfixed":
        return _eqfixed(case, ctx, res)
    return _equality(case, ctx, res)


# ---------------------------------------------------------------- histories
def _member(osy, rng, n, kind=None):
    kind = kind or ["array", "array", "vector"][int(rng.integers(0, 3))]
    dt = gen.draw_dtype(rng)
    shape = (n,) if n is not None else ()
    u = gen.draw_unit(rng, gen.draw_family(rng))
    if kind == "array":
        return osy.Array(values=gen.draw_values(rng, shape, dt, small=True), unit=u)
    nvec = int(rng.integers(1, 4))
    return osy.Vector(*[gen.draw_values(rng, shape, dt, small=True) for _ in range(nvec)], unit=u)


def _observe(cont, is_ds):
    """complete observable dictionary state of the real container"""
    keys = list(cont.keys())
    obs = {
        "keys": keys,
        "iter": list(iter(cont)),
        "len": len(cont),
        "values_ids": [id(v) for v in cont.values()],
        "items": [(k, id(v)) for k, v in cont.items()],
        "in": {k: (k in cont) for k in KEYS},
        "names": [getattr(v, "name", None) for v in cont.values()],
    }
    return obs


def _expected(model):
    keys = list(model.keys())
    return {
        "keys": keys, "iter": keys, "len": len(model),
        "values_ids": [id(v) for v in model.values()],
        "items": [(k, id(v)) for k, v in model.items()],
        "in": {k: (k in model) for k in KEYS},
        "names": keys,
    }


def _group_shape(model):
    for v in model.values():
        return v.shape
    return ()


def _history(case, ctx, res):
    osy = ctx.osyris
    rng = ctx.rng("h", case["i"])
    is_ds = case["container"] == "dataset"
    n0 = int(rng.integers(2, 5))
    cont = osy.Dataset() if is_ds else osy.Datagroup()
    model = {}
    steps = []
    had_replace = had_reject = False
    mon = "dataset-model-steps" if is_ds else "dict-model-steps"

    def mk(ok=True):
        if is_ds:
            if ok:
                g = osy.Datagroup()
                g["x"] = _member(osy, rng, int(rng.integers(1, 4)))
                return g
            return [osy.Array(values=np.arange(3.0)), {"x": 1}, 3.0, None, np.arange(3)][int(rng.integers(0, 5))]
        shp = _group_shape(model)
        if model and shp == ():
            # a scalar group (0-d members) is exempt from the shape gate; only scalars are put into it
            return _member(osy, rng, None)
        if ok or not model:
            # an empty group accepts any shape: also one that differs from what it held before it was emptied
            return _member(osy, rng, shp[0] if model else [n0, n0, n0 + 1, max(1, n0 - 1), None][int(rng.integers(0, 5))])
        return _member(osy, rng, shp[0] + int(rng.integers(1, 3)))

    nops = int(rng.integers(3, 16))
    for step in range(nops):
        op = ["set", "set", "replace", "bad", "del", "pop", "get", "update", "updatekw", "clear", "copy",
              "getitem", "missing", "update-mixed-shapes"][int(rng.integers(0, 14))]
        key = KEYS[int(rng.integers(0, len(KEYS)))]
        steps.append(op + ":" + key)
        before_obs = _observe(cont, is_ds)
        label = f"step {step} {op}({key}) after {steps[:-1]}"
        if op in ("set", "replace"):
            if op == "replace":
                if not model:
                    continue
                key = list(model)[int(rng.integers(0, len(model)))]
                had_replace = True
            val = mk(True)
            o = attempt(cont.__setitem__, key, val)
            if not o.ok:
                res.violate("valid-insertion-rejected", f"{label}: {o.describe()}", steps=steps)
                return
            model[key] = val
        elif op == "bad":
            if not is_ds and (not model or _group_shape(model) == ()):
                continue
            val = mk(False)
            snap = fp(cont) if not is_ds else None
            o = attempt(cont.__setitem__, key, val)
            res.count("rejected-insertion-leaves-state")
            had_reject = True
            if o.ok:
                res.violate("bad-insertion-accepted",
                            f"{label}: inserting {type(val).__name__} of shape {getattr(val, 'shape', None)} into a "
                            f"{'Dataset' if is_ds else 'group of shape ' + str(_group_shape(model))} was accepted",
                            steps=steps)
                return
            if _observe(cont, is_ds) != before_obs or (snap is not None and fp(cont) != snap):
                res.violate("rejected-insertion-changed-state", f"{label}: state changed by a rejected insertion",
                            steps=steps)
                return
        elif op == "del":
            o = attempt(cont.__delitem__, key)
            if (key in model) != o.ok or (not o.ok and not isinstance(o.exc, KeyError)):
                res.violate("del-differs-from-dict", f"{label}: {o.describe()} but key present={key in model}", steps=steps)
                return
            model.pop(key, None)
        elif op == "pop":
            o = attempt(cont.pop, key)
            if key in model:
                exp = model.pop(key)
                if not o.ok or o.value is not exp:
                    res.violate("pop-differs-from-dict", f"{label}: {o.describe()}", steps=steps)
                    return
            elif o.ok or not isinstance(o.exc, KeyError):
                res.violate("pop-differs-from-dict", f"{label}: missing key: {o.describe()}", steps=steps)
                return
        elif op == "get":
            sentinel = object()
            o = attempt(cont.get, key, sentinel)
            exp = model.get(key, sentinel)
            if not o.ok or o.value is not exp:
                res.violate("get-differs-from-dict", f"{label}: {o.describe()}", steps=steps)
                return
        elif op == "update-mixed-shapes":
            # update() with values of unequal shapes: whatever the group held before (in particular: nothing), it
            # must not end up holding members of different shapes; either the accepted prefix or nothing is inserted
            if is_ds or (model and _group_shape(model) == ()):
                continue
            base = _group_shape(model)[0] if model else n0
            ks = [k2 for k2 in KEYS if k2 not in model][:3] or KEYS[:2]
            new = {}
            for j, k2 in enumerate(ks):
                new[k2] = _member(osy, rng, base if j == 0 else base + j)
            if len(new) < 2:
                continue
            had_reject = True
            how = rng.random() < 0.5
            o = attempt(cont.update, new) if how else attempt(lambda: cont.update(**new))
            res.count("rejected-insertion-leaves-state")
            shapes = {v.shape for v in cont.values()}
            if len(shapes) > 1:
                res.violate("members-misaligned", f"{label}: update() with shapes {[v.shape for v in new.values()]} on a group of "
                            f"{len(model)} members left members of shapes {sorted(shapes)}", steps=steps)
                return
            if o.ok:
                res.violate("bad-insertion-accepted", f"{label}: update() with unequal shapes {[v.shape for v in new.values()]} raised nothing",
                            steps=steps)
                return
            # model: the accepted prefix (sequential semantics) or nothing (atomic semantics)
            first = ks[0]
            if first in cont.keys() and cont[first] is new[first]:
                model[first] = new[first]
        elif op in ("update", "updatekw"):
            new = {}
            for k2 in KEYS:
                if rng.random() < 0.4:
                    new[k2] = mk(True)
            if not is_ds and new and not model:
                # all new members must agree among themselves
                first = next(iter(new.values()))
                new = {k2: v for k2, v in new.items() if v.shape == first.shape}
            o = attempt(cont.update, new) if op == "update" else attempt(lambda: cont.update(**new))
            if not o.ok:
                res.violate("valid-update-rejected", f"{label} with {list(new)}: {o.describe()}", steps=steps)
                return
            model.update(new)
        elif op == "clear":
            o = attempt(cont.clear)
            model.clear()
            if not o.ok:
                res.violate("raised-unexpectedly", f"{label}: {o.describe()}", steps=steps)
                return
            if is_ds and len(cont.meta) != 0:
                res.violate("clear-keeps-meta", f"{label}: Dataset.clear left meta {cont.meta}", steps=steps)
        elif op == "copy":
            how = int(rng.integers(0, 2))
            if is_ds:
                cont.meta["marker"] = step
            o = attempt(cont.copy) if how == 0 else attempt(copy.copy, cont)
            if not o.ok:
                res.violate("raised-unexpectedly", f"{label}: {o.describe()}", steps=steps)
                return
            c = o.value
            if c is cont or type(c) is not type(cont) or _observe(c, is_ds) != _expected(model):
                res.violate("copy-differs-from-dict", f"{label}: shallow copy does not have the same items", steps=steps)
                return
            # the copy is a new dictionary: changing it must not change the original
            if model:
                k0 = next(iter(model))
                del c[k0]
                if k0 not in cont:
                    res.violate("copy-shares-dictionary", f"{label}: deleting from the copy deleted from the original",
                                steps=steps)
                    return
            if is_ds and (c.meta is cont.meta or c.meta.get("marker") != step):
                res.violate("copy-meta", f"{label}: Dataset.copy meta not an equal separate dict", steps=steps)
        elif op == "getitem":
            o = attempt(cont.__getitem__, key)
            if key in model:
                if not o.ok or o.value is not model[key]:
                    res.violate("getitem-differs-from-dict", f"{label}: {o.describe()}", steps=steps)
                    return
            elif o.ok or not isinstance(o.exc, KeyError):
                res.violate("getitem-differs-from-dict", f"{label}: missing key: {o.describe()}", steps=steps)
                return
        elif op == "missing":
            pass
        res.count(mon)
        obs, exp = _observe(cont, is_ds), _expected(model)
        if obs != exp:
            bad = [k for k in exp if obs[k] != exp[k]]
            res.violate("state-differs-from-dict", f"{label}: {bad[0]}: real {obs[bad[0]]!r} vs dict {exp[bad[0]]!r}",
                        steps=steps)
            return
        if is_ds:
            pass
        else:
            shp = _group_shape(model)
            if cont.shape != shp:
                res.violate("shape-differs", f"{label}: group.shape {cont.shape} != first member {shp}", steps=steps)
                return
            if shp != () and any(v.shape != shp for v in cont.values()):
                res.violate("members-misaligned", f"{label}: member shapes {[v.shape for v in cont.values()]}",
                            steps=steps)
                return
    res.nontrivial = had_replace and had_reject
    res.digest_src = {"c": case["container"], "steps": steps}
    res.sample = {"container": case["container"], "steps": steps}


# ---------------------------------------------------------------- equality
EQ_FIXED = ["identical", "one-element", "all-different", "other-units-equal", "other-units-unequal",
            "different-keys", "key-order", "empty-members", "zero-d-equal", "zero-d-unequal",
            "vector-equal", "vector-one-component", "subset-keys", "broadcast-0d-vs-1", "empty-groups",
            # members that cannot be compared element-wise: never equal (raising is tolerated, True is not)
            "incompatible-dimensions", "incompatible-dimensions-same-numbers", "shapes-do-not-broadcast",
            "vector-nvec-differs", "second-member-incompatible"]


def _mkgroup(osy, members):
    g = osy.Datagroup()
    for k, v in members:
        g[k] = v
    return g


def _member_equal(x, y):
    """model: element-wise equal quantities (numpy broadcasting)"""
    if (type(x).__name__ == "Vector") != (type(y).__name__ == "Vector"):
        return None
    if type(x).__name__ == "Vector":
        if x.nvec != y.nvec:
            return None
        r = [_member_equal(getattr(x, c), getattr(y, c)) for c in "xyz"[:x.nvec]]
        return None if any(e is None for e in r) else all(r)
    sx, dx = scale_dims(x.unit)
    sy, dy = scale_dims(y.unit)
    if not dims_close(dx, dy):
        return None          # incompatible: not equal (or raise)
    a = np.asarray(x.values, dtype=np.longdouble) * np.longdouble(sx)
    b = np.asarray(y.values, dtype=np.longdouble) * np.longdouble(sy)
    try:
        a, b = np.broadcast_arrays(a, b)
    except ValueError:
        return None
    return bool(np.all(a == b))


def _judge_eq(res, label, g1, g2, expect, detail):
    """expect: True / False / None (None = not equal, raising allowed)"""
    res.count("equality-model")
    before = (fp(g1), fp(g2))
    o = attempt(lambda: g1 == g2)
    if (fp(g1), fp(g2)) != before:
        res.violate("operand-mutated", f"{label}: == changed a group", **detail)
    if expect is None:
        if o.ok and bool(o.value):
            res.violate("eq-true-for-different-content", f"{label}: groups that cannot be equal compare equal", **detail)
        return
    if not o.ok:
        res.violate("raised-unexpectedly", f"{label}: == {o.describe()}", **detail)
        return
    if bool(o.value) != expect:
        mech = "eq-true-for-different-content" if not expect else "eq-false-for-equal-content"
        res.violate(mech, f"{label}: g1 == g2 is {bool(o.value)}, content equality is {expect}", **detail)


def _eqfixed(case, ctx, res):
    osy = ctx.osyris
    A = osy.Array
    name = case["name"]
    a = np.array([1.0, 2.0, 3.0])
    b = np.array([4.0, 5.0, 6.0])
    res.nontrivial = True
    res.sample = {"pair": name}
    mk = lambda *m: _mkgroup(osy, m)  # noqa: E731
    pairs = {
        "identical": (mk(("a", A(a.copy(), unit="m")), ("b", A(b.copy(), unit="s"))),
                      mk(("a", A(a.copy(), unit="m")), ("b", A(b.copy(), unit="s"))), True),
        "one-element": (mk(("a", A(a.copy(), unit="m")), ("b", A(b.copy(), unit="s"))),
                        mk(("a", A(np.array([1.0, 2.0, 3.5]), unit="m")), ("b", A(b.copy(), unit="s"))), False),
        "all-different": (mk(("a", A(a.copy(), unit="m"))), mk(("a", A(a + 10, unit="m"))), False),
        "other-units-equal": (mk(("a", A(a.copy(), unit="m"))), mk(("a", A(a * 100, unit="cm"))), True),
        "other-units-unequal": (mk(("a", A(a.copy(), unit="m"))), mk(("a", A(a.copy(), unit="cm"))), False),
        "different-keys": (mk(("a", A(a.copy(), unit="m"))), mk(("b", A(a.copy(), unit="m"))), False),
        "key-order": (mk(("a", A(a.copy())), ("b", A(b.copy()))), mk(("b", A(b.copy())), ("a", A(a.copy()))), True),
        "empty-members": (mk(("a", A(np.array([]), unit="m"))), mk(("a", A(np.array([]), unit="m"))), True),
        "zero-d-equal": (mk(("a", A(np.array(2.0), unit="m"))), mk(("a", A(np.array(2.0), unit="m"))), True),
        "zero-d-unequal": (mk(("a", A(np.array(2.0), unit="m"))), mk(("a", A(np.array(3.0), unit="m"))), False),
        "vector-equal": (mk(("v", osy.Vector(a.copy(), b.copy(), unit="m"))),
                         mk(("v", osy.Vector(a.copy(), b.copy(), unit="m"))), True),
        "vector-one-component": (mk(("v", osy.Vector(a.copy(), b.copy(), unit="m"))),
                                 mk(("v", osy.Vector(a.copy(), b + 1, unit="m"))), False),
        "subset-keys": (mk(("a", A(a.copy())), ("b", A(b.copy()))), mk(("a", A(a.copy()))), False),
        "broadcast-0d-vs-1": (mk(("a", A(np.array(2.0), unit="m"))), mk(("a", A(np.array([2.0]), unit="m"))), True),
        "empty-groups": (mk(), mk(), True),
        "incompatible-dimensions": (mk(("a", A(a.copy(), unit="m"))), mk(("a", A(b.copy(), unit="s"))), None),
        "incompatible-dimensions-same-numbers": (mk(("a", A(a.copy(), unit="m"))), mk(("a", A(a.copy(), unit="s"))), None),
        "shapes-do-not-broadcast": (mk(("a", A(a.copy(), unit="m"))), mk(("a", A(np.array([1.0, 2.0]), unit="m"))), None),
        # (a Vector member against an Array member is not judged: comparisons broadcast an Array over the components
        #  - C09 - so Vector(a, a) == Array(a) is element-wise true, and the statement does not say which it should be)
        "vector-nvec-differs": (mk(("a", osy.Vector(a.copy(), a.copy(), unit="m"))),
                                mk(("a", osy.Vector(a.copy(), a.copy(), a.copy(), unit="m"))), None),
        "second-member-incompatible": (mk(("a", A(a.copy(), unit="m")), ("b", A(b.copy(), unit="s"))),
                                       mk(("a", A(a.copy(), unit="m")), ("b", A(b.copy(), unit="g"))), None),
    }
    g1, g2, exp = pairs[name]
    _judge_eq(res, f"fixed pair '{name}'", g1, g2, exp, {"pair": name})
    _judge_eq(res, f"fixed pair '{name}' (swapped)", g2, g1, exp, {"pair": name})


def _equality(case, ctx, res):
    osy = ctx.osyris
    rng = ctx.rng("e", case["i"])
    n = int(rng.integers(0, 5)) if rng.random() < 0.9 else None
    nk = int(rng.integers(1, 4))
    keys = list(rng.permutation(KEYS)[:nk])
    m1 = [(k, _member(osy, rng, n)) for k in keys]
    mode = ["identical", "units", "one", "all", "keys", "order"][int(rng.integers(0, 6))]
    desc = {"mode": mode, "n": n, "keys": keys}
    m2 = []
    changed = False
    if mode == "units":
        # equal only after unit conversion, built exactly: g1 holds the numbers in the finer unit, g2 in the
        # coarser one, so that converting g2's members to g1's unit multiplies small integers by an exactly
        # representable integer factor
        m1 = []
        for k in keys:
            fine, coarse = EXACT_PAIRS[int(rng.integers(0, len(EXACT_PAIRS)))]
            ratio = (1.0 * osy.units(coarse)).to(osy.units(fine)).magnitude
            if ratio != int(ratio):
                fine, coarse, ratio = "cm", "m", 100.0
            shape = (n,) if n is not None else ()
            nvec = int(rng.integers(0, 4))
            vals = [rng.integers(-50, 50, size=shape).astype(float) for _ in range(max(nvec, 1))]
            if nvec == 0:
                m1.append((k, osy.Array(values=vals[0] * ratio, unit=fine)))
                m2.append((k, osy.Array(values=vals[0].copy(), unit=coarse)))
            else:
                m1.append((k, osy.Vector(*[v * ratio for v in vals], unit=fine)))
                m2.append((k, osy.Vector(*[v.copy() for v in vals], unit=coarse)))
    else:
        for k, v in m1:
            m2.append((k, v.copy()))
    exp = True
    if mode == "one" and n:
        k, w = m2[int(rng.integers(0, len(m2)))]
        tgt = w if type(w).__name__ == "Array" else getattr(w, "xyz"[int(rng.integers(0, w.nvec))])
        j = int(rng.integers(0, n))
        tgt._array[j] = tgt._array[j] + (3 if tgt._array.dtype.kind in "iu" else abs(tgt._array[j]) * 0.5 + 1.0)   # never == old
        exp, changed = False, True
    elif mode == "all" and (n is None or n):
        for k, w in m2:
            for arr in ([w] if type(w).__name__ == "Array" else [getattr(w, c_) for c_ in "xyz" if getattr(w, c_) is not None]):
                arr._array[...] = arr._array + 7
        exp = False
    elif mode == "keys":
        k, w = m2.pop()
        newk = [x for x in KEYS if x not in keys][0]
        m2.append((newk, w))
        exp = False
    elif mode == "order":
        m2 = m2[::-1]
    g1, g2 = _mkgroup(osy, m1), _mkgroup(osy, m2)
    res.digest_src = desc
    res.sample = dict(desc, units=[str(v.unit) for _, v in m1])
    res.nontrivial = changed or (mode == "units" and exp is True)
    _judge_eq(res, f"random pair {desc}", g1, g2, exp, {"desc": desc})
