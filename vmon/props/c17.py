"""C17 - in-place updates, copies and views follow a fixed aliasing contract.

History + executable aliasing model.  The model keeps, for every live data
object (Array or Vector), the physical quantity it must denote; references
(the same object stored in several Datagroups, plain Python references) point
to the same model entry, copies get an entry of their own, slices are recorded
as (parent, index) views.  After every step every live reference is compared
with the model and np.shares_memory relations with the model's alias relation.
"""
import copy
import operator

import numpy as np

from .. import gen
from ..snapshot import fp
from ..unitsref import Q, compare_quantity, dims_close, dims_mul, rtol_for, scale_dims
from ..util import attempt

TITLE = "In-place updates, copies and views follow a fixed aliasing contract"
RULE = (
    "history i -> rng(seed, C17, i): a pool of Arrays and Vectors (four dtypes, shapes (n,) and 0-d, catalogue "
    "units), some stored in two Datagroups at once; up to 10 steps from {x op= y for + - * / with y an "
    "Array/Vector/number/ndarray/Quantity in the same, a compatible or an incompatible unit; copy(); "
    "copy.copy; copy.deepcopy of Array/Vector/Datagroup/Dataset; container.copy(); slice view}; after each "
    "step all references are compared with the aliasing model.  Non-trivial = an in-place operation happened "
    "on an object reachable through >=2 references (two groups, or an object and a view); distinct = distinct "
    "step sequences."
)
ASSUMPTIONS = [
    "Vector in-place operators may return a new Vector wrapper as long as all older references observe the update "
    "(object identity is demanded of Arrays only, as the statement says)",
    "if numpy itself refuses the in-place result for x's dtype (e.g. int <- float) only 'raises and leaves x, y "
    "unchanged, or succeeds exactly' is demanded",
    "a view keeps the unit it was created with; only its numbers are shared (checked as raw numbers)",
]

IOPS = {"iadd": operator.iadd, "isub": operator.isub, "imul": operator.imul, "idiv": operator.itruediv}
NP = {"iadd": np.add, "isub": np.subtract, "imul": np.multiply, "idiv": np.true_divide}
IOP_NAMES = sorted(IOPS)
STRIDED = [0]
LATEST_USED = [0]
COMPREFS = []       # (entity, component index, the Array object obtained as v.x / v.y / v.z) of the current history


def plan(tier):
    return {"shards": 16, "timeout": 900 if tier == "quick" else 4 * 3600,
            "required_monitors": ["inplace-model", "array-identity", "rhs-unchanged", "copy-independent",
                                  "container-copy-shallow", "deepcopy-independent", "view-shares-memory",
                                  "aliases-observe-update", "inplace-must-raise"],
            "required_tags": ["ramses-dataset-copy", "non-contiguous-buffers", "update-through-returned-vector",
                              "component-reference-held"]}


def cases(ctx):
    n = 3000 if ctx.tier == "quick" else 150000
    out = [{"id": f"fix{i}", "i": i, "fixed": True} for i in range(200)]
    out += [{"id": f"h{i}", "i": i} for i in range(n)]
    out.append({"id": "contracts-repo-tests", "kind": "contracts", "i": 0})
    # the dataset class users actually hold (RamsesDataset, with its own copy()): loaded from a synthetic output
    out += [{"id": f"rds{i}", "kind": "ramses", "i": i} for i in range(6 if ctx.tier == "quick" else 120)]
    return out


class Ent:
    """model entry of one data object"""

    def __init__(self, obj, quant, name):
        self.obj = obj                 # the osyris object (Array or Vector)
        self.q = quant                 # list of Q, one per component
        self.refs = [("var", name)]    # where it is reachable from
        self.name = name
        self.dead = False
        self.latest = None             # for Vectors: the object returned by the most recent in-place operator - what
        #                                `g[key] *= y` stores back into g, while other holders keep the older object


def _comps(obj):
    return [obj] if type(obj).__name__ == "Array" else [getattr(obj, c_) for c_ in "xyz" if getattr(obj, c_) is not None]


def _quant(obj):
    return [Q.of(np.array(c.values), c.unit) for c in _comps(obj)]


def _new_obj(osy, rng, n, kind=None, dtype=None, unit=None):
    kind = kind or ["array", "array", "vector"][int(rng.integers(0, 3))]
    dtype = dtype or gen.draw_dtype(rng, 0.5)
    unit = unit if unit is not None else gen.draw_unit(rng, gen.draw_family(rng))
    shape = (n,) if n is not None else ()
    strided = n is not None and rng.random() < 0.25
    if strided:
        STRIDED[0] += 1

    def vals(k=0, nv=1, table=[None]):
        v = gen.draw_values(rng, shape, dtype, small=True, nonzero=True)
        if not strided:
            return v
        # the same numbers in a buffer that is not C-contiguous: a column of a 2-D table (the way positions and
        # velocities are usually cut out of one (n, 3) array), every other element, or a reversed view
        how = int(rng.integers(0, 3))
        if how == 0:
            t = np.zeros((n, 3), dtype=v.dtype)
            t[:, k % 3] = v
            return t[:, k % 3]
        if how == 1:
            t = np.zeros(2 * n, dtype=v.dtype)
            t[::2] = v
            return t[::2]
        return np.ascontiguousarray(v[::-1])[::-1]
    if kind == "array":
        return osy.Array(values=vals(), unit=unit)
    nvec = int(rng.integers(1, 4))
    return osy.Vector(*[vals(k, nvec) for k in range(nvec)], unit=unit)


def _check_all(res, label, ents, groups, views, steps):
    """every live reference agrees with the model"""
    for e in ents:
        if e.dead:
            continue
        holders = [("var", e.obj)]
        if e.latest is not None and e.latest is not e.obj:
            holders.append(("the object returned by the last in-place operator", e.latest))
        for gname, g in groups.items():
            for k in list(g.keys()):
                if g[k] is e.obj:
                    holders.append((f"{gname}[{k!r}]", g[k]))
        for where, ref in holders:
            comps = _comps(ref)
            if len(comps) != len(e.q):
                res.violate("component-count", f"{label}: {e.name} via {where} has {len(comps)} components", steps=steps)
                return False
            for ci, (c, q) in enumerate(zip(comps, e.q)):
                msg = compare_quantity(c.values, c.unit, q, 16 * rtol_for(c.dtype), None)
                if msg:
                    mech = "alias-does-not-observe" if where != "var" else "object-differs-from-model"
                    if where == "var" and e.latest is not None and e.latest is not e.obj:
                        mech = "older-vector-reference-does-not-observe"
                    s, d = scale_dims(c.unit)
                    if not dims_close(d, q.dims) and d == () and str(c.dtype) not in ("float64", "int64"):
                        mech = "unit-dropped-for-dtype"
                    res.violate(mech, f"{label}: {e.name}[{ci}] seen through {where}: {msg}; unit {c.unit!s} dtype {c.dtype}",
                                steps=steps)
                    return False
    for (ce, ci, ref) in COMPREFS:
        if ce.dead or ci >= len(ce.q):
            continue
        msg = compare_quantity(ref.values, ref.unit, ce.q[ci], 16 * rtol_for(ref.dtype), None)
        if msg:
            res.violate("component-reference-does-not-observe", f"{label}: the Array obtained earlier as {ce.name}.{'xyz'[ci]} no "
                        f"longer shows that component: {msg}; unit {ref.unit!s}", steps=steps)
            return False
    for (pe, idx, view, desc) in views:
        if pe.dead:
            continue
        res.count("view-shares-memory")
        parent = pe.obj
        if view._array.size and not np.shares_memory(view._array, parent._array):
            res.violate("view-not-a-view", f"{label}: slice {desc} of {pe.name} does not share memory", steps=steps)
            return False
        if not np.array_equal(np.asarray(view.values), np.asarray(parent.values)[idx], equal_nan=False):
            res.violate("view-out-of-sync", f"{label}: slice {desc} of {pe.name} does not show the parent's numbers", steps=steps)
            return False
    return True


def _ramses(case, ctx, res):
    """copy() / copy.copy / deepcopy of a loaded RamsesDataset: copy() shares the member Arrays and Vectors (an update in
    place through one is seen through the other), deepcopy shares nothing, neither changes the original."""
    import copy
    import shutil
    from .. import ramses_synth as rs
    from ..io_monitors import quiet
    osy = ctx.osyris
    rng = ctx.rng("rds", case["i"])
    spec = rs.random_spec(rng, ncpu=int(rng.choice([1, 2, 3])), max_octs=30)
    if rng.random() < 0.7:
        spec["part"] = rs.make_part(rng, spec)
    model = rs.build(spec)
    path = ctx.scratch("c17-")
    res.sample = {"ndim": spec["ndim"], "ncpu": spec["ncpu"], "part": bool(spec.get("part"))}
    res.digest_src = {"rds": case["i"], "ndim": spec["ndim"]}
    try:
        rs.write(model, path)
        with quiet():
            o = attempt(lambda: osy.RamsesDataset(spec["nout"], path=path).load())
        if not o.ok:
            res.violate("load-raised", f"RamsesDataset.load {o.describe()}", tb=o.tb)
            return
        ds = o.value
        before = fp({g: ds[g] for g in ds.keys()})
        for how, fn in (("copy()", lambda d: d.copy()), ("copy.copy", copy.copy), ("deepcopy", copy.deepcopy)):
            with quiet():
                o = attempt(fn, ds)
            if not o.ok:
                res.violate("copy-raised", f"{how} of a loaded RamsesDataset {o.describe()}", tb=o.tb)
                return
            c = o.value
            if c is ds or list(c.keys()) != list(ds.keys()):
                res.violate("copy-content", f"{how}: is the original / groups {list(c.keys())} != {list(ds.keys())}")
                return
            for g in ds.keys():
                if list(c[g].keys()) != list(ds[g].keys()):
                    res.violate("copy-content", f"{how}: members of group {g!r} differ: {list(c[g].keys())} != {list(ds[g].keys())}")
                    return
                for k in ds[g].keys():
                    a, b = ds[g][k], c[g][k]
                    ca, cb = _comps(a), _comps(b)
                    shares = any(np.shares_memory(x._array, y._array) for x, y in zip(ca, cb) if x._array.size)
                    if how == "deepcopy":
                        res.count("deepcopy-independent")
                        if b is a or shares:
                            res.violate("deepcopy-not-independent", f"deepcopy(RamsesDataset): member {g}/{k} shares data with the original")
                            return
                    else:
                        res.count("container-copy-shallow")
                        if any(x._array.size and not np.shares_memory(x._array, y._array) for x, y in zip(ca, cb)):
                            res.violate("container-copy-not-shallow", f"{how} of a RamsesDataset: member {g}/{k} does not share its "
                                        f"data with the original (copy() of a container is shallow)")
                            return
            # an update in place through the copy: seen through the original for copy(), not for deepcopy
            g = "mesh"
            k = "density" if "density" in ds[g] else list(ds[g].keys())[0]
            tgt = _comps(c[g][k])[0]
            if tgt._array.size and tgt._array.dtype.kind == "f":
                old = np.array(_comps(ds[g][k])[0]._array)
                tgt *= 2.0
                now = np.array(_comps(ds[g][k])[0]._array)
                res.count("aliases-observe-update")
                if how == "deepcopy":
                    if not np.array_equal(now, old):
                        res.violate("deepcopy-not-independent", f"deepcopy(RamsesDataset): updating {g}/{k} of the copy changed the original")
                        return
                else:
                    if not np.array_equal(now, old * 2.0):
                        res.violate("alias-not-updated", f"{how} of a RamsesDataset: updating {g}/{k} in place through the copy is not "
                                    f"seen through the original")
                        return
                    tgt /= 2.0       # exact (power of two)
            if fp({g2: ds[g2] for g2 in ds.keys()}) != before:
                res.violate("copy-changed-original", f"{how}: the original dataset changed")
                return
        res.nontrivial = True
        res.tag("ramses-dataset-copy")
    finally:
        shutil.rmtree(path, ignore_errors=True)


def run_case(case, ctx, res):
    if case.get("kind") == "ramses":
        return _ramses(case, ctx, res)
    if case.get("kind") == "contracts":
        from .. import contracts
        return contracts.judge_repo_tests(res, ctx, ["test_array.py", "test_vector.py", "test_datagroup.py", "test_dataset.py"], ("Array.__i", "Array.copy"))
    osy = ctx.osyris
    rng = (np.random.default_rng(np.random.SeedSequence([20240217, 17, case["i"]])) if case.get("fixed")
           else ctx.rng(case["i"]))
    n = int(rng.integers(1, 6)) if rng.random() < 0.9 else None
    strided0 = STRIDED[0]
    latest0 = LATEST_USED[0]
    COMPREFS.clear()
    ents = []
    groups = {"g1": osy.Datagroup(), "g2": osy.Datagroup()}
    views = []
    steps = []
    for j in range(int(rng.integers(2, 5))):
        obj = _new_obj(osy, rng, n)
        e = Ent(obj, _quant(obj), f"o{j}")
        ents.append(e)
        if rng.random() < 0.6:
            key = f"k{j}"
            groups["g1"][key] = obj
            e.refs.append(("g1", key))
            if rng.random() < 0.7:
                groups["g2"][key] = obj
                e.refs.append(("g2", key))
    shared_inplace = False
    if not _check_all(res, "initial", ents, groups, views, steps):
        return
    nsteps = int(rng.integers(2, 11))
    for step in range(nsteps):
        live = [e for e in ents if not e.dead]
        e = live[int(rng.integers(0, len(live)))]
        op = ["inplace", "inplace", "inplace", "copy", "view", "container", "deepcontainer", "component-ref"][int(rng.integers(0, 8))]
        label = f"step {step} {op} after {steps}"
        if op == "component-ref":
            # keep a reference to one component Array of a Vector (vx = v.x), possibly stored in a group of its own: it is
            # "the same data", so it must observe every later update of the Vector - value and unit
            vecs = [x for x in live if type(x.obj).__name__ == "Vector"]
            if not vecs:
                continue
            e = vecs[int(rng.integers(0, len(vecs)))]
            have = [c for c in "xyz" if getattr(e.obj, c) is not None]
            ci = int(rng.integers(0, len(have)))
            ref = getattr(e.obj, have[ci])
            if rng.random() < 0.5 and ref.shape == groups["g2"].shape or len(groups["g2"]) == 0:
                o = attempt(groups["g2"].__setitem__, f"{e.name}_{have[ci]}", ref)
                if not o.ok:
                    continue
            COMPREFS.append((e, ci, ref))
            steps.append(f"component-ref({e.name}.{have[ci]})")
            res.tag("component-reference-held")
            continue
        if op == "inplace":
            ok = _inplace(osy, rng, res, e, ents, groups, views, steps, label, n)
            if ok is None:
                return
            if ok and (len(e.refs) >= 3 or any(pe is e for pe, *_ in views)):
                shared_inplace = True
        elif op == "copy":
            how = ["copy", "copy.copy", "deepcopy"][int(rng.integers(0, 3))]
            steps.append(f"{how}({e.name})")
            o = attempt({"copy": lambda x: x.copy(), "copy.copy": copy.copy, "deepcopy": copy.deepcopy}[how], e.obj)
            res.count("copy-independent")
            if not o.ok:
                res.violate("raised-unexpectedly", f"{label}: {how} {o.describe()}", steps=steps)
                return
            c = o.value
            if c is e.obj or type(c) is not type(e.obj):
                res.violate("copy-not-new", f"{label}: {how} returned {'the same object' if c is e.obj else type(c).__name__}",
                            steps=steps)
                return
            for a, b in zip(_comps(c), _comps(e.obj)):
                if np.shares_memory(a._array, b._array):
                    res.violate("copy-shares-memory", f"{label}: {how}({e.name}) shares its buffer with the source", steps=steps)
                    return
            if fp_q(c) != fp_q(e.obj) or c.name != e.obj.name:
                res.violate("copy-differs", f"{label}: {how}({e.name}) is not equal to its source", steps=steps)
                return
            ne = Ent(c, [Q(q.v.copy(), q.dims) for q in e.q], f"o{len(ents)}")
            ents.append(ne)
            # independence of unit and name state, both directions
            c.name = f"renamed_copy_{step}"
            if e.obj.name == f"renamed_copy_{step}":
                res.violate("copy-shares-name", f"{label}: renaming the copy renamed the source", steps=steps)
                return
        elif op == "view":
            if type(e.obj).__name__ != "Array" or not e.obj.shape:
                continue
            m = e.obj.shape[0]
            a, b = sorted(int(x) for x in rng.integers(0, m + 1, size=2))
            st = int(rng.integers(1, 3))
            idx = slice(a, b, st)
            steps.append(f"view {e.name}[{a}:{b}:{st}]")
            o = attempt(e.obj.__getitem__, idx)
            if not o.ok:
                res.violate("raised-unexpectedly", f"{label}: slicing {o.describe()}", steps=steps)
                return
            views.append((e, idx, o.value, f"[{a}:{b}:{st}]"))
        elif op in ("container", "deepcontainer"):
            gname = ["g1", "g2"][int(rng.integers(0, 2))]
            g = groups[gname]
            if len(g) == 0:
                continue
            as_dataset = rng.random() < 0.4
            src = g
            if as_dataset:
                src = osy.Dataset()
                src[gname] = g
                src.meta["time"] = 1.5
            if op == "container":
                how = ["copy", "copy.copy"][int(rng.integers(0, 2))]
                steps.append(f"{how}({'Dataset{' + gname + '}' if as_dataset else gname})")
                o = attempt((lambda x: x.copy()) if how == "copy" else copy.copy, src)
                res.count("container-copy-shallow")
                if not o.ok:
                    res.violate("raised-unexpectedly", f"{label}: {o.describe()}", steps=steps)
                    return
                c = o.value
                if c is src:
                    res.violate("copy-not-new", f"{label}: container copy returned the same container", steps=steps)
                    return
                if as_dataset:
                    if list(c.keys()) != list(src.keys()) or any(c[k] is not src[k] for k in src.keys()):
                        res.violate("container-copy-not-shallow", f"{label}: Dataset.copy does not share its groups", steps=steps)
                        return
                else:
                    if list(c.keys()) != list(src.keys()) or any(c[k] is not src[k] for k in src.keys()):
                        res.violate("container-copy-not-shallow", f"{label}: Datagroup.copy does not share its members", steps=steps)
                        return
            else:
                steps.append(f"deepcopy({'Dataset{' + gname + '}' if as_dataset else gname})")
                o = attempt(copy.deepcopy, src)
                res.count("deepcopy-independent")
                if not o.ok:
                    res.violate("raised-unexpectedly", f"{label}: deepcopy {o.describe()}", steps=steps, tb=o.tb)
                    return
                c = o.value
                cg = c[gname] if as_dataset else c
                if list(cg.keys()) != list(g.keys()):
                    res.violate("deepcopy-differs", f"{label}: deepcopy has keys {list(cg.keys())}", steps=steps)
                    return
                for k in g.keys():
                    if cg[k] is g[k] or any(np.shares_memory(x._array, y._array)
                                           for x, y in zip(_comps(cg[k]), _comps(g[k]))):
                        res.violate("deepcopy-shares", f"{label}: deepcopy shares member {k!r} with the original", steps=steps)
                        return
                    if fp_q(cg[k]) != fp_q(g[k]):
                        res.violate("deepcopy-differs", f"{label}: deepcopy member {k!r} differs", steps=steps)
                        return
                if as_dataset and (c.meta is src.meta or c.meta.get("time") != 1.5):
                    res.violate("deepcopy-differs", f"{label}: deepcopy meta not an equal separate dict", steps=steps)
                    return
                # mutate the deep copy in place: the original (checked below against the model) must not move
                k0 = list(cg.keys())[0]
                for comp in _comps(cg[k0]):
                    if comp._array.dtype.kind == "f":
                        comp._array[...] = comp._array * 2 + 1
                    else:
                        comp._array[...] = comp._array + 1
        if not _check_all(res, label, ents, groups, views, steps):
            return
    res.nontrivial = shared_inplace
    if STRIDED[0] > strided0:
        res.tag("non-contiguous-buffers")
    if LATEST_USED[0] > latest0:
        res.tag("update-through-returned-vector")
    res.digest_src = {"steps": steps, "n": n}
    res.sample = {"n": n, "objects": [(e.name, type(e.obj).__name__, str(_comps(e.obj)[0].dtype), e.refs) for e in ents][:6],
                  "steps": steps}


def fp_q(obj):
    return tuple((str(c.dtype), c.shape, np.asarray(c.values).tobytes(), str(c.unit)) for c in _comps(obj))


def _inplace(osy, rng, res, e, ents, groups, views, steps, label, n):
    """-> True if an update happened, False if it (legitimately) raised, None if a violation was recorded"""
    x = e.obj
    is_vec = type(x).__name__ == "Vector"
    if is_vec and e.latest is not None and rng.random() < 0.6:
        # as in `g[key] *= a; g[key] *= b`: the second update goes through what the first one returned, and every
        # other holder of the Vector (another group, a variable) must still observe it - value and unit
        x = e.latest
        LATEST_USED[0] += 1
    opn = IOP_NAMES[int(rng.integers(0, 4))]
    kinds = ["same", "array", "array", "number", "ndarray", "quantity"]
    kind = kinds[int(rng.integers(0, len(kinds)))]
    xunit = x.unit
    sx, dx = scale_dims(xunit)
    if opn in ("imul", "idiv") and not (1e-75 < sx < 1e75):
        # repeated x *= x squares the unit every time (megayear**32 ...): its CGS factor would leave the range of a
        # double, where neither pint nor the oracle can express the quantity - keep the history inside it
        opn = "iadd" if opn == "imul" else "isub"
    fam = [f for f, us in gen.FAMILIES.items() if dims_close(scale_dims(osy.units(us[0]))[1], dx)]
    rel = ["same", "compatible", "incompatible"][int(rng.integers(0, 3))]
    if rel == "incompatible" or not fam:
        yunit = gen.draw_unit(rng, gen.draw_family(rng, exclude=tuple(fam)))
    elif rel == "same":
        yunit = str(xunit)
    else:
        yunit = gen.draw_unit(rng, fam[0])
    dty = gen.draw_dtype(rng, 0.5)
    if not gen.float32_safe(osy, (dty,) + tuple(str(c.dtype) for c in _comps(x)), (str(xunit), yunit)):
        yunit = str(xunit)         # float32 numbers would over/underflow in the conversion itself
    shape = x.shape
    if kind == "same":
        y = _new_obj(osy, rng, shape[0] if shape else None, kind="vector" if is_vec else "array", dtype=dty, unit=yunit)
        if is_vec and y.nvec != x.nvec:
            y = osy.Vector(*[gen.draw_values(rng, shape, dty, small=True, nonzero=True) for _ in range(x.nvec)], unit=yunit)
    elif kind == "array":
        y = osy.Array(values=gen.draw_values(rng, shape, dty, small=True, nonzero=True), unit=yunit)
    elif kind == "quantity":
        y = gen.draw_values(rng, shape, dty, small=True, nonzero=True) * osy.units(yunit)
    elif kind == "ndarray":
        y = gen.draw_values(rng, shape, dty, small=True, nonzero=True)
        yunit = ""
    else:
        y = [2, 3.5, -4, 0.25][int(rng.integers(0, 4))]
        yunit = ""
    steps.append(f"{e.name} {opn} {kind}[{yunit}]({dty})")
    # model of the right operand, per component
    if kind == "same" and is_vec:
        yq = _quant(y)
    elif kind in ("same", "array"):
        yq = [Q.of(np.array(y.values), y.unit)] * len(e.q)
    elif kind == "quantity":
        yq = [Q.of(np.array(y.magnitude), y.units)] * len(e.q)
    else:
        yq = [Q(np.asarray(y, dtype=np.longdouble), ())] * len(e.q)
    addsub = opn in ("iadd", "isub")
    must_raise = addsub and not dims_close(yq[0].dims, e.q[0].dims)
    # For a floating x every result is representable.  For an integer x numpy itself refuses most in-place
    # results (true division, float operands, converted units): there only "raises and leaves x, y
    # unchanged, or succeeds exactly" is demanded.
    representable = all(np.dtype(c.dtype).kind == "f" for c in _comps(x))
    before_x, before_y = fp(x), fp(y)
    qx_before = fp_q(x)
    with np.errstate(all="ignore"):
        o = attempt(IOPS[opn], x, y)
    res.count("rhs-unchanged")
    if fp(y) != before_y:
        res.violate("rhs-mutated", f"{label}: right operand changed by {opn}", steps=steps)
        return None
    if must_raise:
        res.count("inplace-must-raise")
        if o.ok:
            res.violate("no-raise-incompatible", f"{label}: {opn} with incompatible unit {yunit!r} on {xunit!s} succeeded", steps=steps)
            return None
        if fp_q(x) != qx_before:
            res.violate("failed-inplace-changed-x", f"{label}: rejected {opn} changed x", steps=steps)
            return None
        return False
    if not o.ok:
        if not representable:
            if fp_q(x) != qx_before:
                res.violate("failed-inplace-changed-x", f"{label}: {opn} raised ({type(o.exc).__name__}) but changed x", steps=steps)
                return None
            res.count("not-representable-raised")
            return False
        res.violate("raised-unexpectedly", f"{label}: {opn} {o.describe()}", steps=steps, tb=o.tb)
        return None
    r = o.value
    if not is_vec:
        res.count("array-identity")
        if r is not x:
            res.violate("array-rebound", f"{label}: {opn} returned a different object for an Array", steps=steps)
            return None
    elif type(r).__name__ != "Vector":
        res.violate("wrong-type", f"{label}: {opn} on a Vector returned {type(r).__name__}", steps=steps)
        return None
    # update the model
    newq = []
    for q, yq_c in zip(e.q, yq):
        if opn == "iadd":
            newq.append(Q(q.v + yq_c.v, q.dims))
        elif opn == "isub":
            newq.append(Q(q.v - yq_c.v, q.dims))
        elif opn == "imul":
            newq.append(Q(q.v * yq_c.v, dims_mul(q.dims, yq_c.dims)))
        else:
            newq.append(Q(q.v / yq_c.v, dims_mul(q.dims, yq_c.dims, -1)))
    if not representable:
        # numpy would have refused; osyris succeeded: then it must be exact
        res.count("not-representable-succeeded")
    # a float32 target whose true result leaves float32's range (histories multiply repeatedly) is not
    # representable either: adopt what numpy stored and stop judging this step
    for q_new, c in zip(newq, _comps(r)):
        if np.dtype(c.dtype) == np.float32:
            raw_true = np.abs(np.asarray(q_new.v / np.longdouble(scale_dims(c.unit)[0]), dtype=np.longdouble))
            if np.any(raw_true > 1e36) or np.any((raw_true > 0) & (raw_true < 1e-36)):
                e.q = _quant(r)
                res.count("float32-range-exceeded")
                return True
    if np.dtype(_comps(x)[0].dtype).kind in "iu":
        # integer buffers hold the (possibly truncated) numbers numpy stored; only demand exactness when the
        # true result is integral in x's unit
        for q_new, c in zip(newq, _comps(r)):
            s_new = scale_dims(c.unit)[0]
            raw_true = q_new.v / np.longdouble(s_new)
            if not np.all(np.abs(raw_true - np.round(raw_true)) < 1e-9 * (1 + np.abs(raw_true))):
                e.q = _quant(r)      # not representable exactly: adopt what is there, stop judging this step
                e.obj = r if is_vec else x
                return True
    e.q = newq
    res.count("inplace-model")
    # the returned object denotes the new quantity ...
    for ci, (c, q) in enumerate(zip(_comps(r), newq)):
        msg = compare_quantity(c.values, c.unit, q, 16 * rtol_for(c.dtype, dty), np.abs(q.v) + (np.abs(yq[0].v) if addsub else 0))
        if msg:
            s, d = scale_dims(c.unit)
            mech = "inplace-wrong-result"
            if not dims_close(d, q.dims) and d == () and str(c.dtype) not in ("float64", "int64"):
                mech = "unit-dropped-for-dtype"
            res.violate(mech, f"{label}: result[{ci}] {msg}; unit {c.unit!s} dtype {c.dtype}", steps=steps)
            return None
    # ... and so does every older reference (checked by _check_all through e.obj, which stays the OLD object).
    # The model is re-synchronised with the numbers actually stored in the *returned* object, so that
    # legitimate rounding (float32 operands, converted units) does not accumulate over a history.
    e.q = _quant(r)
    if is_vec:
        e.latest = r
    res.count("aliases-observe-update")
    return True
