"""C03 - a map pixel shows the value of the loaded cell containing its sample point (zero thickness).

Oracle: brute-force point location (vmon.mesh_oracle) at origin + x_i*u + y_j*v, with the basis captured from
the real get_direction call and x_i, y_j taken from the returned Plot; every pixel strictly inside one cell
must show that cell (cells carry unique tags), every pixel far from all cells must be masked, face pixels may
show any touching cell.  Schedule part: see vmon.sched (thread-count / threading-layer sweep of the real
parallel kernel, bounds-checked sequential rebuild of the same source, iteration-conflict monitor).
"""
import numpy as np

from .. import maps, mesh_oracle as mo, sched

TITLE = "A map pixel shows the value of the loaded cell containing its sample point"
RULE = (
    "fixed corpus: window/cell-size ratio 2**-6 .. 2**4 x direction mode (letter, triple, vector, vector with a "
    "zero component, 2-D) x origin mode (centre, random, on a face, on a corner, outside, cell centre); then "
    "case i -> rng(seed, C03, i): mesh (uniform / 2-5 level AMR tiling / tilings with holes / needle; 2-D and "
    "3-D; positions in cm, au, pc, km), origin, direction, window (ratio, omitted, larger than the domain; "
    "dy != dx), resolution (1..257, odd/even, dict), 1-3 layers incl. a vector layer; schedule cases: the same "
    "kernel inputs under 1..16 threads x {omp, workqueue} x chunk sizes, bit-compared with the sequential "
    "bounds-checked rebuild.  Non-trivial = the window intersects >=2 cells or is smaller than one cell, and "
    ">=1 pixel is required-unmasked; distinct = distinct (mesh, request)."
)
ASSUMPTIONS = ["cell values are finite (the mask is derived from NaNs); numpy.ma inputs and 'lic' mode not covered",
               "face tolerance 1e-9 of the cell size: pixels within it may show any touching cell or be masked"]


def plan(tier):
    return {"shards": 16, "timeout": 1500 if tier == "quick" else 6 * 3600,
            "shard_env": sched.shard_env,
            "required_monitors": ["pixels-judged", "layers-judged", "vector-layers-judged", "pixel-grid",
                                  "schedule-runs", "boundscheck-runs", "rendered-figures"],
            "required_tags": ["window-smaller-than-cell", "window-larger-than-domain", "origin-on-face", "oblique",
                              "ndim2", "ndim3", "dx-omitted", "origin-omitted", "resolution-omitted",
                              "normal-vector-along-an-axis"]}


def cases(ctx):
    out = []
    k = 0
    for e in (-6, -5, -4, -3, -2, -1, 0, 1, 2, 3, 4):
        for dm in ("letter", "triple", "vector", "vector-zero", "vector-axis", "2d"):
            om = ["centre", "random", "face", "corner", "outside", "cell-centre"][(k + k // 6) % 6]
            out.append({"id": f"fix{k}", "fixed": {"ratio_exp": e, "dir_mode": dm, "origin_mode": om}, "i": k,
                        "ndim": 2 if dm == "2d" else 3})
            k += 1
    n = 300 if ctx.tier == "quick" else 20000
    out += [{"id": f"r{i}", "i": i} for i in range(n)]
    ns = 12 if ctx.tier == "quick" else 120
    out += [{"id": f"s{i}", "i": i, "sched": True} for i in range(ns)]
    return out


def run_case(case, ctx, res):
    osy = ctx.osyris
    if case.get("sched"):
        return sched.run_map_kernel_case(case, ctx, res, thick=False)
    if "fixed" in case:
        rng = np.random.default_rng(np.random.SeedSequence([20240203, 3, case["i"]]))
        fixed = dict(case["fixed"])
        if fixed.get("dir_mode") == "2d":
            fixed.pop("dir_mode")
        mesh = mo.make_mesh(rng, ndim=case["ndim"], max_cells=1500)
    else:
        rng = ctx.rng(case["i"])
        fixed = None
        mesh = mo.make_mesh(rng, max_cells=2500)
    req = maps.draw_request(rng, mesh, thick=False, fixed=fixed)
    res.digest_src = {"mesh": [mesh["style"], mesh["ndim"], len(mesh["pos"])], "req": req}
    info = maps.run_map(osy, rng, res, mesh, req, thick=False)
    typical = float(np.median(mesh["size"]))
    res.tag(f"ndim{mesh['ndim']}")
    if req["dx"] is None:
        res.tag("dx-omitted")
    else:
        if req["dx"] < typical:
            res.tag("window-smaller-than-cell")
        if req["dx"] > 1.0:
            res.tag("window-larger-than-domain")
    if req["origin_mode"] == "omitted":
        res.tag("origin-omitted")
    if req["resolution"] is None:
        res.tag("resolution-omitted")
    if req["origin_mode"] in ("face", "corner"):
        res.tag("origin-on-face")
    if req.get("dir_mode") in ("vector", "vector-zero"):
        res.tag("oblique")
    if req.get("dir_mode") == "vector-axis":
        res.tag("normal-vector-along-an-axis")
    res.nontrivial = info.get("required_unmasked", 0) >= 1
    res.sample = {"mesh": {"style": mesh["style"], "ndim": mesh["ndim"], "cells": len(mesh["pos"])},
                  "request": {k: req[k] for k in ("direction", "dx", "dy", "dx_unit", "pos_unit", "resolution", "origin_mode", "layers")},
                  "observed": {k: info.get(k) for k in ("pixels", "required_unmasked", "required_masked", "ambiguous")}}
