"""C14 - particle and sink tables are loaded completely, typed and scaled correctly."""
import shutil

import numpy as np

from .. import io_monitors as iom
from .. import ramses_synth as rs
from ..unitsref import Q, compare_quantity, dims_close, dims_mul, dims_pow, scale_dims

TITLE = "Particle and sink tables are loaded completely, typed and scaled correctly"
RULE = (
    "case i -> rng(seed, C14, i): output with ndim 1-3, 1-8 CPUs, a particle descriptor mixing d/i/b columns "
    "(4 layouts), per-CPU particle counts incl. 0 / all 0 / hundreds, five header records of random byte "
    "lengths, optional sortby, optionally only some of the descriptor's variables asked for (first dropped, last "
    "dropped, random subset, a single one; as a list or as {name: False}); a sink CSV with 0 (empty file), 1 or several sinks, random column subsets, the "
    "code-unit dialect ('m l**2 t**-1') or the legacy bracket dialect ('[au]'), or no sink file / no particle "
    "files at all.  Stored numbers encode (cpu, row, column).  Non-trivial = >=2 CPUs with different non-zero "
    "particle counts and >=1 byte and >=1 int column, or a sink file with >=2 sinks; distinct = distinct specs."
)
ASSUMPTIONS = ["single-column sink files are not generated (RAMSES never writes one)",
               "integer/byte columns may come back as floats; only their numbers are compared"]


def plan(tier):
    return {"shards": 16, "timeout": 1200 if tier == "quick" else 5 * 3600,
            "required_monitors": ["part-columns", "part-count-meta", "part-sorted", "sink-columns", "sink-absent",
                                  "sink-empty-file", "part-absent"],
            "required_tags": ["zero-count-cpu", "all-zero-particles", "byte-column", "one-sink", "legacy-units",
                              "code-units", "ndim1", "ndim2", "ndim3", "part-variable-subset"]}


def cases(ctx):
    n = 300 if ctx.tier == "quick" else 15000
    out = [{"id": f"fix{i}", "i": i, "fixed": True} for i in range(48)]
    out += [{"id": f"r{i}", "i": i} for i in range(n)]
    return out


def sink_unit(expr, spec):
    """unit line entry -> (factor to CGS or None for legacy, dims, legacy unit string)"""
    e = expr.strip()
    if e.replace("[", "").replace("]", "") == "1":
        return 1.0, (), None
    if "[" in e:
        return None, None, e.replace("[", "").replace("]", "")
    base = {"m": (spec["unit_d"] * spec["unit_l"] ** 3, (("gram", 1.0),)),
            "l": (spec["unit_l"], (("centimeter", 1.0),)),
            "t": (spec["unit_t"], (("second", 1.0),))}
    fac, dims = 1.0, ()
    for tok in e.split():
        sym, _, p = tok.partition("**")
        p = float(p) if p else 1.0
        f, d = base[sym]
        fac *= f ** p
        dims = dims_mul(dims, dims_pow(d, p))
    return fac, dims, None


def run_case(case, ctx, res):
    osy = ctx.osyris
    rng = (np.random.default_rng(np.random.SeedSequence([20240214, 14, case["i"]])) if case.get("fixed")
           else ctx.rng(case["i"]))
    ndim = [1, 2, 3][case["i"] % 3] if case.get("fixed") else None
    spec = rs.random_spec(rng, ndim=ndim, ncpu=int(rng.choice([1, 2, 3, 5, 8])), max_octs=40,
                          levelmin=1, levelmax=int(rng.integers(1, 4)), grav=False, rt=None)
    has_part = rng.random() < 0.85
    has_sink = rng.random() < 0.8
    if case.get("fixed"):
        has_part, has_sink = case["i"] % 8 != 7, case["i"] % 5 != 4
    if has_part:
        spec["part"] = rs.make_part(rng, spec)
        if case.get("fixed") and case["i"] % 6 == 0:
            spec["part"]["counts"] = [0] * spec["ncpu"]
    if has_sink:
        spec["sink"] = rs.make_sink(rng, spec)
        if case.get("fixed"):
            spec["sink"]["n"] = [1, 3, 0][case["i"] % 3] if not spec["sink"]["empty_file"] else 0
            if spec["sink"]["n"] == 0:
                spec["sink"]["empty_file"] = True
    sortkey = None
    if has_part and rng.random() < 0.5:
        names = [n for n, t in spec["part"]["descriptor"]]
        sortkey = "identity" if "identity" in names and rng.random() < 0.6 else "mass" if "mass" in names else None
    # "for each variable ... the concatenation over the CPU files read": also when only some of the descriptor's
    # variables are asked for (dropping the first / a random subset / all but one)
    keep, psel = None, None
    if has_part and (rng.random() < 0.4 if not case.get("fixed") else case["i"] % 4 == 1):
        names = [n for n, t in spec["part"]["descriptor"]]
        mode = str(rng.choice(["drop-first", "drop-first", "drop-random", "keep-one", "drop-last"]))
        if mode == "drop-first":
            keep = names[1:]
        elif mode == "drop-last":
            keep = names[:-1]
        elif mode == "keep-one":
            keep = [names[int(rng.integers(0, len(names)))]]
        else:
            keep = [n for n in names if rng.random() < 0.6]
        if sortkey and sortkey not in keep:
            keep.append(sortkey)
        if not keep:
            keep = [names[-1]]
        keep = [n for n in names if n in keep]
        if len(keep) == len(names):
            keep = None
        else:
            psel = ({"part": {n: False for n in names if n not in keep}} if rng.random() < 0.5
                    else {"part": [str(n) for n in rng.permutation(keep)]})
            res.tag("part-variable-subset")
    model = rs.build(spec)
    res.tag(f"ndim{spec['ndim']}")
    res.digest_src = {"spec": iom.spec_brief(spec), "part": spec["part"], "sink": spec["sink"], "sort": sortkey, "select": psel}
    res.sample = {"ndim": spec["ndim"], "ncpu": spec["ncpu"], "part": spec["part"], "sink": spec["sink"], "sortby": sortkey,
                  "select": psel}
    path = ctx.scratch("c14-")
    try:
        rs.write(model, path)
        kw = {"sortby": {"part": sortkey}} if sortkey else {}
        if psel:
            kw["select"] = psel
        out, _, opened = iom.load(osy, path, spec["nout"], **kw)
        if not out.ok:
            res.violate("load-raised", f"load({kw}) {out.describe()}", part=spec["part"], sink=spec["sink"], tb=out.tb)
            return
        ds = out.value
        _check_part(res, osy, spec, ds, sortkey, keep)
        _check_sink(res, osy, spec, ds)
    finally:
        shutil.rmtree(path, ignore_errors=True)


def _check_part(res, osy, spec, ds, sortkey, keep=None):
    p = spec["part"]
    if p is None:
        res.count("part-absent")
        if "part" in ds.keys():
            res.violate("part-group-without-files", f"no particle files, yet group 'part' with keys {list(ds['part'].keys())}")
        return
    if "part" not in ds.keys():
        res.violate("part-group-missing", "particle files present but no 'part' group", part=p)
        return
    part = ds["part"]
    counts = p["counts"]
    total = sum(counts)
    desc = [tuple(x) for x in p["descriptor"]]
    if any(c == 0 for c in counts) and total > 0:
        res.tag("zero-count-cpu")
    if total == 0:
        res.tag("all-zero-particles")
    if any(t == "b" for _, t in desc):
        res.tag("byte-column")
    nz = [c for c in counts if c]
    if len(set(nz)) >= 2 and any(t == "b" for _, t in desc) and any(t == "i" for _, t in desc):
        res.nontrivial = True
    res.count("part-count-meta")
    if int(ds.meta.get("nparticles", -1)) != total:
        res.violate("meta-nparticles", f"meta['nparticles'] = {ds.meta.get('nparticles')}, files hold {total}", part=p)
    names = [n for n, t in desc if keep is None or n in keep]
    vectors, scalars = iom.vector_families(names, spec["ndim"])
    exp_keys = set(vectors) | set(scalars)
    if set(part.keys()) != exp_keys:
        res.violate("part-keys-differ", f"part keys {sorted(part.keys())} != expected {sorted(exp_keys)} (asked for {keep or 'all'})",
                    part=p)
        return
    where = {}
    for vname, fam in vectors.items():
        for c, comp in zip("xyz", fam):
            where[comp] = (vname, c)
    # expected columns in file order (cpu 1..ncpu, rows in file order)
    cols = {}
    for icol, (name, typ) in enumerate(desc):
        cols[name] = np.array([rs.part_value(name, typ, cpu, r, icol) for cpu in range(1, spec["ncpu"] + 1)
                               for r in range(counts[cpu - 1])], dtype=float)
    order = np.arange(total)
    got = {}
    for name in names:
        arr = getattr(part[where[name][0]], where[name][1]) if name in where else part[name]
        got[name] = arr
        if np.asarray(arr.values).shape != (total,):
            res.violate("part-length", f"column {name!r} has shape {np.asarray(arr.values).shape}, files hold {total} particles"
                        + (f" (variables asked for: {keep})" if keep else ""), part=p)
            return
    if sortkey:
        res.count("part-sorted")
        fac, _ = iom.expected_unit(sortkey, spec)
        kv = np.asarray(got[sortkey].values, dtype=float)
        if np.any(np.diff(kv) < 0):
            res.violate("part-not-sorted", f"sortby={sortkey!r}: key column is not ascending", part=p)
            return
        # decode the permutation from a column whose stored numbers are unique (a byte column is not)
        dec = next((nm for nm in names if len(set(cols[nm].tolist())) == total), None)
        if dec is None:
            res.inconclusive.append("no particle column with unique numbers: permutation not decodable")
            return
        fac_d, _ = iom.expected_unit(dec, spec)
        s_d, _d = scale_dims(got[dec].unit)
        raw = np.asarray(got[dec].values, dtype=float) * s_d / fac_d
        lut = {round(float(v), 3): i for i, v in enumerate(cols[dec])}
        try:
            order = np.array([lut[round(float(v), 3)] for v in raw], dtype=int)
        except KeyError:
            res.violate("part-values-wrong", f"sortby={sortkey!r}: column {dec!r} holds numbers that are not stored values", part=p)
            return
        if sorted(order.tolist()) != list(range(total)):
            res.violate("part-rows-lost", f"sortby={sortkey!r}: rows are not a permutation of the stored rows", part=p)
            return
    for name in names:
        res.count("part-columns")
        fac, dims = iom.expected_unit(name, spec)
        arr = got[name]
        msg = compare_quantity(arr.values, arr.unit, Q(np.asarray(cols[name][order] * fac, dtype=np.longdouble), dims), 1e-12)
        if msg:
            s, d = scale_dims(arr.unit)
            mech = "part-unit-wrong" if not dims_close(d, dims) else "part-values-wrong"
            if mech == "part-values-wrong" and sortkey:
                mech = "part-sort-misaligned"
            res.violate(mech, f"particle column {name!r} ({dict(desc)[name]}): {msg}", part=p, sort=sortkey)
            return


def _check_sink(res, osy, spec, ds):
    s = spec["sink"]
    if s is None:
        res.count("sink-absent")
        if "sink" in ds.keys():
            res.violate("sink-group-without-file", f"no sink file, yet group 'sink' with keys {list(ds['sink'].keys())}")
        return
    if "sink" not in ds.keys():
        res.violate("sink-group-missing", "sink file present but no 'sink' group", sink=s)
        return
    sink = ds["sink"]
    if s["empty_file"]:
        res.count("sink-empty-file")
        if len(sink.keys()) != 0:
            res.violate("sink-empty-not-empty", f"empty sink file gave keys {list(sink.keys())}", sink=s)
        return
    n = s["n"]
    if n == 1:
        res.tag("one-sink")
    if n >= 2:
        res.nontrivial = True
    res.tag("legacy-units" if s["legacy"] else "code-units")
    names = [c[0] for c in s["columns"]]
    vectors, scalars = iom.vector_families(names, spec["ndim"])
    exp_keys = set(vectors) | set(scalars)
    if set(sink.keys()) != exp_keys:
        res.violate("sink-keys-differ", f"sink keys {sorted(sink.keys())} != expected {sorted(exp_keys)}", sink=s)
        return
    where = {}
    for vname, fam in vectors.items():
        for c, comp in zip("xyz", fam):
            where[comp] = (vname, c)
    for icol, (name, uexpr) in enumerate(s["columns"]):
        res.count("sink-columns")
        arr = getattr(sink[where[name][0]], where[name][1]) if name in where else sink[name]
        vals = np.array([rs.sink_value(r, icol) for r in range(n)])
        if np.asarray(arr.values).shape != (n,):
            res.violate("sink-rows", f"sink column {name!r} has shape {np.asarray(arr.values).shape}, file has {n} sinks", sink=s)
            return
        fac, dims, legacy = sink_unit(uexpr, spec)
        if legacy is not None:
            fac, dims = scale_dims(osy.units(legacy))
        msg = compare_quantity(arr.values, arr.unit, Q(np.asarray(vals * fac, dtype=np.longdouble), dims), 1e-12)
        if msg:
            sc, d = scale_dims(arr.unit)
            mech = "sink-unit-wrong" if not dims_close(d, dims) else "sink-values-wrong"
            res.violate(mech, f"sink column {name!r} [{uexpr}]: {msg}", sink=s)
            return
