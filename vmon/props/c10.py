"""C10 - numpy functions on Arrays return dimensionally correct units or refuse.

Fixed catalogue, explicit rule per class (DESIGN 4/C10).  The value oracle is
numpy itself applied to the raw numbers (after the conversion the rule
prescribes); the unit oracle is dimensional analysis in vmon.unitsref.  For
functions that combine several unit-carrying operands the call must either
return the correctly converted quantity or raise - never a third thing.
"""
import numpy as np

from .. import gen
from ..snapshot import fp
from ..unitsref import Q, compare_quantity, dims_close, dims_mul, dims_pow, rtol_for, scale_dims
from ..util import attempt

TITLE = "numpy functions on Arrays return dimensionally correct units or refuse"
RULE = (
    "exhaustive over the catalogue (unchanged-unit reductions/selections, unit-preserving multi-operand "
    "functions, transformed: multiply divide true_divide sqrt square cbrt power reciprocal, predicates) x "
    "unit assignment (same, compatible-different, incompatible, plain ndarray/number mixed in; the second "
    "operand is a pint Quantity instead of an Array in 1 of 5 cases) x dtype "
    "(float64/32, int64/32) x keyword form (none, axis=, keepdims=, out=) on a small fixed value corpus, "
    "followed by random value sets/shapes drawn from rng(seed, C10, i).  Non-trivial = >=2 operands with "
    "different units, or a non-float64 operand, or a keyword form; distinct = distinct (function, form, "
    "assignment, dtypes, shape)."
)
ASSUMPTIONS = [
    "functions whose unit rule the statement does not fix (var, prod, dot, argsort, log, exp ...) are outside the catalogue",
    "a plain ndarray/number mixed into a unit-preserving function may either raise or be read in the Array's unit",
]

# ---- catalogue ---------------------------------------------------------------
KEEP1 = {  # one unit-carrying operand, unit unchanged
    "sum": np.sum, "mean": np.mean, "amin": np.amin, "amax": np.amax, "min": np.min, "max": np.max,
    "nanmin": np.nanmin, "nanmax": np.nanmax, "nansum": np.nansum, "nanmean": np.nanmean,
    "absolute": np.absolute, "abs": np.abs, "negative": np.negative, "median": np.median, "std": np.std,
    "cumsum": np.cumsum, "sort": np.sort, "diff": np.diff, "ravel": np.ravel, "flip": np.flip,
    "roll": lambda a, **k: np.roll(a, 1, **k), "take": lambda a, **k: np.take(a, np.array([0, -1, 0]), **k),
    "squeeze": np.squeeze, "transpose": np.transpose, "fabs": np.fabs, "positive": np.positive,
}
AXIS_OK = {"sum", "mean", "amin", "amax", "min", "max", "nanmin", "nanmax", "nansum", "nanmean", "median",
           "std", "cumsum", "sort", "diff", "flip", "roll", "take"}
KEEPDIMS_OK = {"sum", "mean", "amin", "amax", "min", "max", "nansum", "nanmean", "std", "median"}
OUT_OK = {"absolute", "negative", "fabs", "positive"}
KEEPN = {  # several unit-carrying operands, unit preserved
    "add": np.add, "subtract": np.subtract, "maximum": np.maximum, "minimum": np.minimum, "fmax": np.fmax,
    "fmin": np.fmin, "hypot": np.hypot,
    "concatenate": lambda a, b, **k: np.concatenate([a, b], **k),
    "stack": lambda a, b, **k: np.stack([a, b], **k),
    "hstack": lambda a, b: np.hstack([a, b]), "vstack": lambda a, b: np.vstack([a, b]),
    "append": lambda a, b: np.append(a, b),
    "where": None, "clip": None,   # built specially
}
KEEPN_AXIS = {"concatenate", "stack"}
KEEPN_OUT = {"add", "subtract", "maximum", "hypot"}
TRANS2 = {"multiply": np.multiply, "divide": np.divide, "true_divide": np.true_divide}
TRANS1 = {"sqrt": (np.sqrt, 0.5), "square": (np.square, 2), "cbrt": (np.cbrt, 1.0 / 3.0),
          "reciprocal": (np.reciprocal, -1), "power2": (lambda a, **k: np.power(a, 2, **k), 2),
          "power05": (lambda a, **k: np.power(a, 0.5, **k), 0.5), "power3": (lambda a, **k: np.power(a, 3, **k), 3)}
PRED1 = {"isfinite": np.isfinite, "isnan": np.isnan, "isinf": np.isinf}
PRED2 = {"less": np.less, "greater": np.greater, "equal": np.equal, "not_equal": np.not_equal,
         "less_equal": np.less_equal, "greater_equal": np.greater_equal}
LOGIC = {"logical_and": np.logical_and, "logical_or": np.logical_or, "logical_xor": np.logical_xor,
         "logical_not": np.logical_not}

ASSIGN = ["same", "compatible", "incompatible", "plain-ndarray", "plain-number"]
QUANTITY_OPERANDS = [0]


def plan(tier):
    return {"shards": 16, "timeout": 900 if tier == "quick" else 4 * 3600,
            "required_monitors": ["keep1", "keepN", "transformed", "predicate", "kw-axis", "kw-out",
                                  "must-raise-or-convert"],
            "required_tags": ["quantity-operand", "where-condition-as-list"]}


def cases(ctx):
    out = []
    reps = 1 if ctx.tier == "quick" else 200
    k = 0
    for rep in range(reps):
        for dt in gen.DTYPES:
            for name in sorted(KEEP1):
                forms = ["plain"] + (["axis"] if name in AXIS_OK else []) + \
                    (["keepdims"] if name in KEEPDIMS_OK else []) + (["out"] if name in OUT_OK else [])
                for form in forms:
                    out.append({"id": f"k1-{k}", "cls": "keep1", "f": name, "form": form, "dtype": dt,
                                "rep": rep, "i": k})
                    k += 1
            for name in sorted(KEEPN):
                for asg in ASSIGN:
                    forms = ["plain"] + (["axis"] if name in KEEPN_AXIS else []) + \
                        (["out"] if name in KEEPN_OUT else [])
                    for form in forms:
                        out.append({"id": f"kn-{k}", "cls": "keepN", "f": name, "form": form, "asg": asg,
                                    "dtype": dt, "rep": rep, "i": k})
                        k += 1
            for name in sorted(TRANS2):
                for asg in ASSIGN:
                    for form in ("plain", "out"):
                        out.append({"id": f"t2-{k}", "cls": "trans2", "f": name, "asg": asg, "form": form,
                                    "dtype": dt, "rep": rep, "i": k})
                        k += 1
            for name in sorted(TRANS1):
                for form in ("plain", "out"):
                    out.append({"id": f"t1-{k}", "cls": "trans1", "f": name, "form": form, "dtype": dt,
                                "rep": rep, "i": k})
                    k += 1
            for name in sorted(PRED1):
                out.append({"id": f"p1-{k}", "cls": "pred1", "f": name, "dtype": dt, "rep": rep, "i": k})
                k += 1
            for name in sorted(PRED2):
                for asg in ASSIGN:
                    out.append({"id": f"p2-{k}", "cls": "pred2", "f": name, "asg": asg, "dtype": dt,
                                "rep": rep, "i": k})
                    k += 1
        for name in sorted(LOGIC):
            out.append({"id": f"lg-{k}", "cls": "logic", "f": name, "rep": rep, "i": k})
            k += 1
    return out


# ---- helpers -----------------------------------------------------------------
def _rng(case, ctx):
    if case["rep"] == 0:   # fixed corpus, independent of VERIF_SEED
        return np.random.default_rng(np.random.SeedSequence([20240210, 10, case["i"]]))
    return ctx.rng(case["i"])


def _shape(rng, need2d):
    if need2d:
        return (int(rng.integers(2, 4)), int(rng.integers(2, 5)))
    return gen.draw_shape(rng, allow0d=False) if rng.random() < 0.85 else ()


def _units_for(rng, asg):
    if asg == "same":
        f1, u1, _, u2, _ = gen.draw_unit_pair(rng, "same")
    elif asg == "compatible":
        while True:
            f1, u1, _, u2, rel = gen.draw_unit_pair(rng, "compatible")
            if rel == "compatible":
                break
    elif asg == "incompatible":
        f1, u1, _, u2, _ = gen.draw_unit_pair(rng, "incompatible")
    else:
        f1 = gen.draw_family(rng, exclude=("dimensionless",))
        u1 = gen.draw_unit(rng, f1)
        u2 = None
    return u1, u2


def _check_result(res, sig, mon, out, exp_raw, exp_scale, exp_dims, rt, cond_raw, want_type="Array",
                  allow_raise=False, out_obj=None):
    """exp_raw: numpy's result on the (converted) raw numbers; the quantity it denotes is
    exp_raw * exp_scale with dimension exp_dims."""
    res.count(mon)
    if not out.ok:
        if allow_raise:
            res.count("raised-instead-of-converting")
            return
        mech = "raised-unexpectedly"
        if isinstance(out.exc, TypeError) and "not iterable" in str(out.exc) and sig.get("form") in ("axis", "keepdims"):
            mech = "kwargs-not-iterable"
        res.violate(mech, f"np.{sig['f']} [{sig.get('form', 'plain')}] {out.describe()}", sig=sig, tb=out.tb)
        return
    r = out.value
    if out_obj is not None and r is not out_obj:
        res.violate("out-not-returned", f"np.{sig['f']}(..., out=c) did not return c", sig=sig)
    if type(r).__name__ != want_type:
        res.violate("wrong-type", f"np.{sig['f']} returned {type(r).__name__}, expected osyris {want_type}", sig=sig)
        return
    exp_raw = np.asarray(exp_raw)
    rv = np.asarray(r.values)
    if rv.shape != exp_raw.shape:
        res.violate("wrong-shape", f"np.{sig['f']}: shape {rv.shape} != numpy's {exp_raw.shape}", sig=sig)
        return
    if exp_raw.dtype == np.bool_:
        if rv.dtype != np.bool_ or not np.array_equal(rv, exp_raw):
            res.violate("predicate-wrong", f"np.{sig['f']}: {rv.tolist()!r} != {exp_raw.tolist()!r}", sig=sig)
        if scale_dims(r.unit) != (1.0, ()):
            res.violate("predicate-not-dimensionless", f"np.{sig['f']}: unit {r.unit!s}", sig=sig)
        return
    expQ = Q(np.asarray(exp_raw, dtype=np.longdouble) * np.longdouble(exp_scale), exp_dims)
    cond = None if cond_raw is None else np.longdouble(cond_raw) * np.longdouble(exp_scale)
    msg = compare_quantity(rv, r.unit, expQ, rt, cond)
    if msg:
        s, d = scale_dims(r.unit)
        mech = "wrong-value"
        if not dims_close(d, exp_dims):
            mech = "wrong-dimension"
            if d == () and str(rv.dtype) not in ("float64", "int64"):
                mech = "unit-dropped-for-dtype"
            elif sig["f"] in ("square", "cbrt"):
                mech = "unit-op-missing"
            elif sig["f"] == "where":
                mech = "where-condition-unit"
        elif sig.get("asg") in ("compatible",):
            mech = "mixed-units-raw"
        res.violate(mech, f"np.{sig['f']} [{sig.get('form', 'plain')}, {sig.get('asg', '-')}, {sig.get('dt')}] "
                    f"units {sig.get('units')}: {msg}; result unit {r.unit!s} dtype {rv.dtype}", sig=sig)


def run_case(case, ctx, res):
    osy = ctx.osyris
    rng = _rng(case, ctx)
    cls = case["cls"]
    name = case["f"]
    form = case.get("form", "plain")
    dt = case.get("dtype", "float64")
    sig = {"f": name, "cls": cls, "form": form, "asg": case.get("asg"), "dt": dt}
    res.digest_src = sig
    q0 = QUANTITY_OPERANDS[0]
    with np.errstate(all="ignore"):
        globals()["_" + cls](osy, rng, res, sig, name, form, dt, case)
    if QUANTITY_OPERANDS[0] > q0:
        res.tag("quantity-operand")
        sig["second_operand"] = "pint Quantity"
    if res.sample is None:
        res.sample = dict(sig)
    res.nontrivial = dt != "float64" or form != "plain" or case.get("asg") in ("compatible", "incompatible")


def _keep1(osy, rng, res, sig, name, form, dt, case):
    shape = _shape(rng, form in ("axis", "keepdims") or name in ("squeeze", "transpose"))
    if name in ("take", "roll", "diff", "sort", "cumsum", "flip") and not shape:
        shape = (4,)
    if name == "squeeze":
        shape = (1, shape[1])
    f1 = gen.draw_family(rng)
    u = gen.draw_unit(rng, f1)
    v = gen.draw_values(rng, shape, dt, small=True)
    if name == "fabs" and np.dtype(dt).kind in "iu":
        v = v.astype("float64")   # numpy itself refuses fabs on integers
    a = osy.Array(values=v.copy(), unit=u, name="a")
    sig.update(units=[u], shape=list(shape))
    kw = {}
    if form == "axis":
        kw["axis"] = int(rng.integers(0, 2)) if name != "take" else 0
    elif form == "keepdims":
        kw["keepdims"] = True
        if rng.random() < 0.5:
            kw["axis"] = int(rng.integers(0, 2))
    f = KEEP1[name]
    exp_raw = f(v, **kw)
    s, d = scale_dims(a.unit)
    out_obj = None
    before = fp(a)
    if form == "out":
        out_obj = osy.Array(values=np.zeros(shape, dtype=np.asarray(exp_raw).dtype), unit="s", name="c")
        out = attempt(f, a, out=out_obj)
        res.count("kw-out")
    else:
        out = attempt(f, a, **kw)
        if form in ("axis", "keepdims"):
            res.count("kw-axis")
    if fp(a) != before:
        res.violate("operand-mutated", f"np.{name} changed its argument", sig=sig)
    res.sample = dict(sig, values=v, kwargs=kw)
    _check_result(res, sig, "keep1", out, exp_raw, s, d, 8 * rtol_for(dt), np.max(np.abs(v.astype(float))) if v.size else 0,
                  out_obj=out_obj)


def _operands(osy, rng, asg, dt, shape, nonzero=False):
    u1, u2 = _units_for(rng, asg)
    dt2 = dt if rng.random() < 0.7 else gen.draw_dtype(rng)
    if not gen.float32_safe(osy, (dt, dt2), (u1, u2)):
        dt = dt2 = "float64"       # float32 numbers would over/underflow in the conversion itself
    v1 = gen.draw_values(rng, shape, dt, small=True, nonzero=nonzero)
    a = osy.Array(values=v1.copy(), unit=u1, name="a")
    if asg == "plain-number":
        v2 = gen.draw_values(rng, (), dt2, small=True, nonzero=True)
        b = v2.item()
        v2 = np.asarray(b)
    else:
        v2 = gen.draw_values(rng, shape, dt2, small=True, nonzero=True)
        b = v2.copy() if asg == "plain-ndarray" else osy.Array(values=v2.copy(), unit=u2, name="b")
        if asg != "plain-ndarray" and rng.random() < 0.2:
            b = v2.copy() * osy.units(u2)         # a pint Quantity also carries a unit
            QUANTITY_OPERANDS[0] += 1
    return u1, u2, dt2, v1, a, v2, b


def _keepN(osy, rng, res, sig, name, form, dt, case):
    asg = case["asg"]
    need2d = form == "axis" or name in ("vstack",)
    shape = _shape(rng, need2d)
    if name in ("concatenate", "stack", "hstack", "vstack", "append") and not shape:
        shape = (3,)
    if name in ("concatenate", "stack", "hstack", "vstack", "append") and asg == "plain-number":
        asg = "plain-ndarray"
    u1, u2, dt2, v1, a, v2, b = _operands(osy, rng, asg, dt, shape)
    sig.update(asg=asg, units=[u1, u2], dt=[dt, dt2], shape=list(shape))
    s1, d1 = scale_dims(a.unit)
    if u2 is None:
        ratio, compatible, plain = 1.0, True, True
    else:
        s2, d2 = scale_dims(osy.units(u2))
        compatible, plain = dims_close(d1, d2), False
        ratio = s2 / s1
    kw = {}
    if form == "axis":
        kw["axis"] = int(rng.integers(0, 2))
    if name == "where":
        cond_v = rng.random(shape) < 0.5
        cond = osy.Array(values=cond_v) if rng.random() < 0.6 else cond_v
        if np.shape(cond_v) and rng.random() < 0.4:
            cond = cond_v.tolist()           # the condition written as a plain Python list (or tuple)
            if rng.random() < 0.3:
                cond = tuple(cond) if np.ndim(cond_v) == 1 else cond
            res.tag("where-condition-as-list")
        call = lambda x, y, **k: np.where(cond, x, y)  # noqa: E731
        ref = lambda x, y, **k: np.where(cond_v, x, y)  # noqa: E731
        sig["cond"] = type(cond).__name__
    elif name == "clip":
        call = lambda x, y, **k: np.clip(x, y, None)  # noqa: E731
        ref = call
    else:
        call = ref = KEEPN[name]
    v2c = v2 if plain else np.asarray(v2) * ratio
    exp_raw = ref(v1, v2c, **kw) if compatible else None
    out_obj = None
    before = (fp(a), fp(b))
    if form == "out":
        odt = np.result_type(np.asarray(v1).dtype, np.asarray(v2c).dtype)
        out_obj = osy.Array(values=np.zeros(np.broadcast_shapes(np.shape(v1), np.shape(v2)), dtype=odt),
                            unit="K", name="c")
        out = attempt(call, a, b, out=out_obj)
        res.count("kw-out")
    else:
        out = attempt(call, a, b, **kw)
        if form == "axis":
            res.count("kw-axis")
    if (fp(a), fp(b)) != before:
        res.violate("operand-mutated", f"np.{name} changed an argument", sig=sig)
    res.sample = dict(sig, a=v1, b=v2)
    if not compatible:
        res.count("must-raise-or-convert")
        if out.ok:
            res.violate("mixed-units-raw", f"np.{name}: operands in {u1!r} and {u2!r} (incompatible) were combined: "
                        f"returned {str(out.value)[:100]}", sig=sig)
        return
    if not plain and u1 != u2:
        res.count("must-raise-or-convert")
    maxabs = max(np.max(np.abs(np.asarray(v1, float))) if np.size(v1) else 0,
                 np.max(np.abs(np.asarray(v2c, float))) if np.size(v2c) else 0)
    _check_result(res, sig, "keepN", out, exp_raw, s1, d1, 8 * rtol_for(dt, dt2), maxabs,
                  allow_raise=(u1 != u2) or plain, out_obj=out_obj)


def _trans2(osy, rng, res, sig, name, form, dt, case):
    asg = case["asg"]
    shape = _shape(rng, False)
    u1, u2, dt2, v1, a, v2, b = _operands(osy, rng, asg, dt, shape)
    sig.update(units=[u1, u2], dt=[dt, dt2], shape=list(shape))
    s1, d1 = scale_dims(a.unit)
    s2, d2 = (1.0, ()) if u2 is None else scale_dims(osy.units(u2))
    f = TRANS2[name]
    exp_raw = f(v1, v2)
    sign = 1 if name == "multiply" else -1
    scale = s1 * s2 if sign == 1 else s1 / s2
    out_obj = None
    before = (fp(a), fp(b))
    if form == "out":
        out_obj = osy.Array(values=np.zeros(np.shape(exp_raw), dtype=np.asarray(exp_raw).dtype), unit="K", name="c")
        out = attempt(f, a, b, out=out_obj)
        res.count("kw-out")
    else:
        out = attempt(f, a, b)
    if (fp(a), fp(b)) != before:
        res.violate("operand-mutated", f"np.{name} changed an argument", sig=sig)
    res.sample = dict(sig, a=v1, b=v2)
    _check_result(res, sig, "transformed", out, exp_raw, scale, dims_mul(d1, d2, sign), 8 * rtol_for(dt, dt2), None,
                  out_obj=out_obj)


def _trans1(osy, rng, res, sig, name, form, dt, case):
    shape = _shape(rng, False)
    f1 = gen.draw_family(rng)
    u = gen.draw_unit(rng, f1)
    f, p = TRANS1[name]
    v = gen.draw_values(rng, shape, dt, small=True, positive=True)
    a = osy.Array(values=v.copy(), unit=u, name="a")
    sig.update(units=[u], shape=list(shape))
    s, d = scale_dims(a.unit)
    exp_raw = f(v)
    out_obj = None
    before = fp(a)
    if form == "out":
        out_obj = osy.Array(values=np.zeros(np.shape(exp_raw), dtype=np.asarray(exp_raw).dtype), unit="K", name="c")
        out = attempt(f, a, out=out_obj)
        res.count("kw-out")
    else:
        out = attempt(f, a)
    if fp(a) != before:
        res.violate("operand-mutated", f"np.{name} changed its argument", sig=sig)
    res.sample = dict(sig, values=v)
    _check_result(res, sig, "transformed", out, exp_raw, float(np.longdouble(s) ** np.longdouble(p)), dims_pow(d, p),
                  16 * rtol_for(dt), None, out_obj=out_obj)


def _pred1(osy, rng, res, sig, name, form, dt, case):
    shape = _shape(rng, False)
    u = gen.draw_unit(rng, gen.draw_family(rng))
    v = gen.draw_values(rng, shape, dt, small=True)
    if np.dtype(dt).kind == "f" and v.size:
        v = v.copy()
        flat = v.reshape(-1)
        flat[0] = [np.nan, np.inf, -np.inf, 1.0][int(rng.integers(0, 4))]
    a = osy.Array(values=v.copy(), unit=u, name="a")
    sig.update(units=[u], shape=list(shape))
    out = attempt(PRED1[name], a)
    res.sample = dict(sig, values=v)
    _check_result(res, sig, "predicate", out, PRED1[name](v), 1.0, (), 0, None)


def _pred2(osy, rng, res, sig, name, form, dt, case):
    asg = case["asg"]
    shape = _shape(rng, False)
    u1, u2, dt2, v1, a, v2, b = _operands(osy, rng, asg, dt, shape)
    sig.update(units=[u1, u2], dt=[dt, dt2], shape=list(shape))
    s1, d1 = scale_dims(a.unit)
    plain = u2 is None
    s2, d2 = (1.0, ()) if plain else scale_dims(osy.units(u2))
    out = attempt(PRED2[name], a, b)
    res.sample = dict(sig, a=v1, b=v2)
    if not dims_close(d1, d2):
        res.count("must-raise-or-convert")
        if plain:
            # a plain number compared with a dimensional Array: raise, or read it in the Array's unit
            if out.ok:
                exp = PRED2[name](v1, v2)
                if not np.array_equal(np.asarray(out.value.values), exp):
                    res.violate("predicate-wrong", f"np.{name}(Array[{u1}], plain): differs from numpy on raw values", sig=sig)
            return
        if out.ok:
            res.violate("mixed-units-raw", f"np.{name}: {u1!r} vs {u2!r} (incompatible) returned {str(out.value)[:80]}",
                        sig=sig)
        return
    # physical verdict with decisive margin (cf. C07)
    A = np.asarray(v1, dtype=np.longdouble) * np.longdouble(s1)
    B = np.asarray(v2, dtype=np.longdouble) * np.longdouble(s2)
    A, B = np.broadcast_arrays(A, B)
    margin = 1e-6 if "32" not in dt + dt2 else 1e-3
    decisive = np.abs(A - B) > margin * (np.abs(A) + np.abs(B))
    if u1 == u2 or plain:
        decisive = np.ones(A.shape, dtype=bool)
        truth = PRED2[name](*np.broadcast_arrays(v1, v2))
    else:
        truth = PRED2[name](A, B)
        res.count("must-raise-or-convert")
    res.count("predicate")
    if not out.ok:
        if u1 != u2 and not plain:
            res.count("raised-instead-of-converting")
            return
        res.violate("raised-unexpectedly", f"np.{name} {out.describe()}", sig=sig, tb=out.tb)
        return
    r = out.value
    if type(r).__name__ != "Array" or np.asarray(r.values).dtype != np.bool_ or np.asarray(r.values).shape != A.shape:
        res.violate("wrong-type", f"np.{name} returned {type(r).__name__} dtype {getattr(r, 'dtype', None)}", sig=sig)
        return
    bad = decisive & (np.asarray(r.values) != truth)
    if np.any(bad):
        res.violate("mixed-units-raw" if u1 != u2 else "predicate-wrong",
                    f"np.{name} with units {u1!r},{u2!r}: {int(bad.sum())} elements differ from the physical verdict",
                    sig=sig)
    if scale_dims(r.unit) != (1.0, ()):
        res.violate("predicate-not-dimensionless", f"np.{name}: unit {r.unit!s}", sig=sig)


def _logic(osy, rng, res, sig, name, form, dt, case):
    shape = _shape(rng, False)
    x = rng.random(shape) < 0.5
    y = rng.random(shape) < 0.5
    a, b = osy.Array(values=np.array(x)), osy.Array(values=np.array(y))
    sig.update(shape=list(shape))
    if name == "logical_not":
        out, exp = attempt(np.logical_not, a), np.logical_not(x)
    else:
        out, exp = attempt(LOGIC[name], a, b), LOGIC[name](x, y)
    res.sample = dict(sig, a=x, b=y)
    _check_result(res, sig, "predicate", out, exp, 1.0, (), 0, None)
