"""C18 - every accepted map orientation yields an orthonormal, correctly oriented basis.

Invariant monitor on the real get_direction(): unit length, mutual perpendicularity, n parallel (same sense)
to the request, u x v = n when only the normal is given; 'top'/'side' against an angular-momentum oracle
computed with numpy from the same cells.
"""
import numpy as np

from ..io_monitors import quiet
from ..util import attempt

TITLE = "Every accepted map orientation yields an orthonormal, correctly oriented basis"
RULE = (
    "case i -> rng(seed, C18, i): normal Vectors (Gaussian, axis aligned +-, one or two zero components, z=0, "
    "x+y=0, components spanning up to 30 decades relative to each other, overall length 1e-100..1e100, with and "
    "without units, int/float32 dtypes), axis letters and all six triples in any case, VectorBasis inputs with "
    "orthogonal non-unit vectors, and 'top'/'side' on rotating discs (known spin axis, counter-rotating pairs, "
    "off-centre origins, dx/dy given or omitted); a sweep over every decade of length 1e-323 .. 1e308 for three "
    "directions.  A separate 'extreme' class (component ratios >= 1e150 or "
    "lengths whose squares over/underflow) is generated and reported under its own mechanism key.  "
    "Non-trivial = the normal is not axis aligned; distinct = distinct requests."
)
ASSUMPTIONS = ["tolerance 1e-10 on lengths and dot products (1e-5 for float32 normals, 1e-8 for 'top'/'side' vs the numpy oracle)",
               "a user-supplied VectorBasis is expected to be orthogonal already; only its normalisation is judged"]

TOL = 1e-10


def plan(tier):
    return {"shards": 16, "timeout": 900 if tier == "quick" else 4 * 3600,
            "required_monitors": ["normal-vector-basis", "letter-basis", "triple-basis", "top-side-oracle",
                                  "vectorbasis-input", "extreme-class", "top-side-sequences"],
            "required_tags": ["top-side-origin-omitted"]}


def cases(ctx):
    out = []
    k = 0
    for s in ["x", "y", "z", "X", "Y", "Z"]:
        out.append({"id": f"letter-{s}", "kind": "letter", "s": s})
    for t in ["xyz", "xzy", "yxz", "yzx", "zxy", "zyx", "ZYX", "Xyz", "yZx"]:
        out.append({"id": f"triple-{t}", "kind": "triple", "s": t})
    fixed = [(1, 0, 0), (0, 1, 0), (0, 0, 1), (-1, 0, 0), (0, -1, 0), (0, 0, -1), (1, 1, 0), (1, -1, 0), (-1, 1, 0),
             (1, 0, 1), (0, 1, 1), (1, -1, 1), (1, -1, 1e-30), (1, 1, 1), (1e-30, 1, 1), (1, 1e30, 1), (1e-15, 1e15, 1),
             (3, 4, 0), (0, 0, 1e-100), (1e100, 0, 0), (2, -2, 1e-12), (0, 1e-100, 1e-100), (1e50, 1e50, 1e50),
             (0.5, 1, 2), (1, 2, -3)]
    for j, n in enumerate(fixed):
        for unit in ("", "cm", "pc"):
            out.append({"id": f"nfix-{j}-{unit or 'none'}", "kind": "normal", "n": list(n), "unit": unit})
    # every decade of length from the smallest subnormal to the largest double (the bands in which squares become
    # subnormal, underflow or overflow lie between the "regular" and the "extreme" random classes)
    for e in range(-323, 309):
        for j, d in enumerate(((0.3, -0.5, 0.8), (1.0, 0.0, 0.0), (0.6, 0.7, 0.0))):
            out.append({"id": f"dec{e}-{j}", "kind": "normal", "n": [c * 10.0 ** e if e > -300 else c * 10.0 ** (e + 30) * 1e-30 for c in d],
                        "unit": ["", "cm", "pc"][j]})
    nn = 5000 if ctx.tier == "quick" else 500000
    for i in range(nn):
        out.append({"id": f"n{i}", "kind": "normal", "i": i})
    ne = 300 if ctx.tier == "quick" else 20000
    for i in range(ne):
        out.append({"id": f"x{i}", "kind": "extreme", "i": i})
    nb = 300 if ctx.tier == "quick" else 20000
    for i in range(nb):
        out.append({"id": f"b{i}", "kind": "basis", "i": i})
    nd = 200 if ctx.tier == "quick" else 10000
    for i in range(nd):
        out.append({"id": f"d{i}", "kind": "disc", "i": i})
    for i in range(nd // 4):
        out.append({"id": f"q{i}", "kind": "discseq", "i": i})
    return out


def comps(v):
    return np.array([float(np.asarray(getattr(v, c).values)) for c in "xyz"], dtype=np.longdouble)


def check_basis(res, label, basis, request=None, only_normal=False, mech_prefix="", TOL=TOL):
    """numeric invariants; returns True if all hold"""
    n, u, v = comps(basis.n), comps(basis.u), comps(basis.v)
    ok = True

    def bad(mech, msg):
        nonlocal ok
        ok = False
        res.violate(mech_prefix + mech, f"{label}: {msg}; n={np.asarray(n, float).tolist()} u={np.asarray(u, float).tolist()} "
                    f"v={np.asarray(v, float).tolist()}", request=None if request is None else np.asarray(request, float).tolist())
    for name, w in (("n", n), ("u", u), ("v", v)):
        if not np.all(np.isfinite(w)):
            bad("not-finite", f"{name} has non-finite components")
            return False
        if abs(np.sqrt(np.sum(w * w)) - 1) > TOL:
            bad("not-unit", f"|{name}| = {float(np.sqrt(np.sum(w * w)))!r}")
    if not ok:
        return False
    for (a, wa), (b, wb) in ((("n", n), ("u", u)), (("n", n), ("v", v)), (("u", u), ("v", v))):
        if abs(np.sum(wa * wb)) > TOL:
            bad("not-perpendicular", f"{a}.{b} = {float(np.sum(wa * wb))!r}")
    if request is not None:
        r = np.asarray(request, dtype=np.longdouble)
        r = r / np.max(np.abs(r))
        r = r / np.sqrt(np.sum(r * r))
        if np.max(np.abs(n - r)) > 10 * TOL:
            bad("normal-not-parallel", f"n differs from the requested direction {np.asarray(r, float).tolist()}")
    if only_normal:
        c = np.cross(np.asarray(u, float), np.asarray(v, float))
        if np.max(np.abs(c - np.asarray(n, float))) > 10 * TOL:
            bad("wrong-handedness", f"u x v = {c.tolist()} != n")
    return ok


def run_case(case, ctx, res):
    from osyris.plot.direction import get_direction
    osy = ctx.osyris
    kind = case["kind"]
    axes = {"x": (1, 0, 0), "y": (0, 1, 0), "z": (0, 0, 1)}
    if kind == "letter":
        res.count("letter-basis")
        o = attempt(get_direction, case["s"])
        res.sample = {"direction": case["s"]}
        if not o.ok or o.value is None:
            res.violate("direction-rejected", f"get_direction({case['s']!r}) {o.describe()}")
            return
        check_basis(res, f"direction {case['s']!r}", o.value, request=axes[case["s"].lower()])
        return
    if kind == "triple":
        res.count("triple-basis")
        res.nontrivial = True
        o = attempt(get_direction, case["s"])
        res.sample = {"direction": case["s"]}
        if not o.ok or o.value is None:
            res.violate("direction-rejected", f"get_direction({case['s']!r}) {o.describe()}")
            return
        b = o.value
        if check_basis(res, f"direction {case['s']!r}", b, request=axes[case["s"][0].lower()]):
            for name, letter in zip("nuv", case["s"].lower()):
                if np.max(np.abs(comps(getattr(b, name)) - np.array(axes[letter]))) > TOL:
                    res.violate("triple-wrong-axis", f"direction {case['s']!r}: {name} is not the {letter} axis")
        return
    if kind in ("normal", "extreme"):
        return _normal(case, ctx, res, osy, get_direction)
    if kind == "basis":
        return _basis(case, ctx, res, osy, get_direction)
    if kind == "discseq":
        return _discseq(case, ctx, res, osy, get_direction)
    return _disc(case, ctx, res, osy, get_direction)


def _normal(case, ctx, res, osy, get_direction):
    extreme = case["kind"] == "extreme"
    if "n" in case:
        n, unit, dtype = np.array(case["n"], dtype=float), case["unit"], "float64"
    else:
        rng = ctx.rng(case["kind"], case["i"])
        mode = int(rng.integers(0, 8))
        n = rng.normal(size=3)
        if extreme:
            em = int(rng.integers(0, 3))
            if em == 0:      # huge ratio between components
                n[int(rng.integers(0, 3))] *= 10.0 ** rng.uniform(150, 300) * (1 if rng.random() < 0.5 else 0) or 10.0 ** -rng.uniform(150, 300)
            elif em == 1:    # squares overflow
                n *= 10.0 ** rng.uniform(155, 300)
            else:            # squares underflow
                n *= 10.0 ** -rng.uniform(165, 300)
        else:
            if mode == 1:
                n = np.zeros(3)
                n[int(rng.integers(0, 3))] = rng.choice([-1.0, 1.0]) * 10.0 ** rng.uniform(-3, 3)
            elif mode == 2:
                n[int(rng.integers(0, 3))] = 0.0
            elif mode == 3:
                n[2] = 0.0
            elif mode == 4:
                n[1] = -n[0]
            elif mode == 5:
                n = n * 10.0 ** rng.uniform(-15, 15, size=3)     # up to 30 decades apart
            elif mode == 6:
                z = [i for i in range(3)]
                rng.shuffle(z)
                n[z[0]] = 0.0
                n[z[1]] = 0.0
            n = n * 10.0 ** rng.uniform(-100, 100) if rng.random() < 0.5 else n
        unit = ["", "", "cm", "pc", "km/s"][int(rng.integers(0, 5))]
        dtype = ["float64", "float64", "float32", "int64"][int(rng.integers(0, 4))] if not extreme else "float64"
        if dtype == "int64":
            n = np.round(n / np.max(np.abs(n)) * 7)
            if not np.any(n):
                n[0] = 1
        if dtype == "float32":
            n = n / np.max(np.abs(n))
    if not np.any(n != 0):
        n[0] = 1.0
    vals = n.astype(dtype)
    nz = vals[vals != 0].astype(float)
    ratio = float(np.max(np.abs(nz)) / np.min(np.abs(nz)))
    length2_ok = np.all(np.isfinite(np.asarray(vals, dtype=float) ** 2)) and np.sum(np.asarray(vals, float) ** 2) > 1e-300
    is_extreme = ratio >= 1e150 or not length2_ok
    res.count("extreme-class" if is_extreme else "normal-vector-basis")
    v = osy.Vector(vals[0], vals[1], vals[2], unit=unit)
    res.digest_src = {"n": vals.tolist(), "unit": unit, "dtype": dtype}
    res.sample = {"normal": vals.tolist(), "unit": unit, "dtype": dtype, "class": "extreme" if is_extreme else "regular"}
    res.nontrivial = int(np.sum(vals != 0)) > 1
    with np.errstate(all="ignore"):
        o = attempt(get_direction, v)
    label = f"normal {vals.tolist()} [{unit or 'no unit'}, {dtype}]"
    prefix = "extreme-" if is_extreme else ""
    if not o.ok or o.value is None:
        res.violate(prefix + "direction-rejected", f"{label}: {o.describe()}")
        return
    check_basis(res, label, o.value, request=np.asarray(vals, dtype=np.longdouble), only_normal=True, mech_prefix=prefix,
                TOL=1e-5 if dtype == "float32" else TOL)


def _basis(case, ctx, res, osy, get_direction):
    rng = ctx.rng("basis", case["i"])
    # random orthogonal frame with arbitrary lengths
    q, _ = np.linalg.qr(rng.normal(size=(3, 3)))
    lens = 10.0 ** rng.uniform(-3, 3, size=3)
    unit = ["", "cm"][int(rng.integers(0, 2))]
    vecs = [osy.Vector(*(q[:, k] * lens[k]), unit=unit, name="abc"[k]) for k in range(3)]
    b_in = osy.VectorBasis(n=vecs[0], u=vecs[1], v=vecs[2])
    res.count("vectorbasis-input")
    res.nontrivial = True
    res.digest_src = {"q": q.tolist(), "lens": lens.tolist()}
    res.sample = {"VectorBasis": [(q[:, k] * lens[k]).tolist() for k in range(3)], "unit": unit}
    o = attempt(get_direction, b_in)
    if not o.ok or o.value is None:
        res.violate("direction-rejected", f"get_direction(VectorBasis) {o.describe()}")
        return
    if check_basis(res, "VectorBasis input", o.value, request=q[:, 0]):
        for name, k in (("u", 1), ("v", 2)):
            if np.max(np.abs(np.asarray(comps(getattr(o.value, name)), float) - q[:, k])) > 1e-9:
                res.violate("basis-vectors-changed", f"VectorBasis input: {name} is not the normalised input vector")


def _disc(case, ctx, res, osy, get_direction):
    rng = ctx.rng("disc", case["i"])
    n = int(rng.integers(30, 400))
    axis = rng.normal(size=3)
    axis /= np.linalg.norm(axis)
    origin = rng.uniform(-0.3, 0.3, size=3) if rng.random() < 0.6 else np.zeros(3)
    pos = rng.uniform(-1, 1, size=(n, 3)) + origin
    omega = 10.0 ** rng.uniform(-2, 2)
    r = pos - origin
    vel = np.cross(axis * omega, r) + 0.05 * omega * rng.normal(size=(n, 3))
    mass = 10.0 ** rng.uniform(-1, 1, size=n)
    if rng.random() < 0.3:      # counter-rotating minority: net L still non-zero
        flip = rng.random(n) < 0.3
        vel[flip] = -vel[flip]
    pu, vu, mu = [("cm", "cm/s", "g"), ("au", "km/s", "M_sun"), ("pc", "km/s", "M_sun")][int(rng.integers(0, 3))]
    dg = osy.Datagroup()
    dg["position"] = osy.Vector(pos[:, 0].copy(), pos[:, 1].copy(), pos[:, 2].copy(), unit=pu)
    dg["velocity"] = osy.Vector(vel[:, 0].copy(), vel[:, 1].copy(), vel[:, 2].copy(), unit=vu)
    dg["mass"] = osy.Array(values=mass.copy(), unit=mu)
    give_dx = rng.random() < 0.7
    which = "top" if rng.random() < 0.5 else "side"
    which = which if rng.random() < 0.8 else which.upper()
    kw = {}
    if give_dx:
        R = float(rng.uniform(0.5, 1.6))
        dxv, dyv = 2 * R * float(rng.uniform(0.7, 1.3)), None
        dyv = 4 * R - dxv
        kw = {"dx": dxv * osy.units(pu), "dy": dyv * osy.units(pu)}
    else:
        R = 0.5 * float(np.sum(pos.max(axis=0) - pos.min(axis=0))) / 3.0
    o_vec = osy.Vector(*origin, unit=pu)
    dist = np.linalg.norm(r, axis=1)
    if np.any(np.abs(dist - R) < 1e-7 * R):
        res.inconclusive.append("cell within rounding of the sphere radius")
        return
    inside = dist < R
    if inside.sum() < 3:
        res.inconclusive.append("fewer than 3 cells inside the sphere")
        return
    L = np.sum(mass[inside, None] * np.cross(r[inside], vel[inside]), axis=0)
    scale = np.sum(mass[inside] * np.linalg.norm(r[inside], axis=1) * np.linalg.norm(vel[inside], axis=1))
    if np.linalg.norm(L) < 1e-6 * scale:
        res.inconclusive.append("net angular momentum ~ 0")
        return
    Lhat = L / np.linalg.norm(L)
    res.count("top-side-oracle")
    res.nontrivial = True
    res.digest_src = {"disc": case["i"]}
    res.sample = {"direction": which, "cells": n, "inside_sphere": int(inside.sum()), "units": [pu, vu, mu],
                  "dx_given": give_dx, "origin": origin.tolist(), "L_hat": Lhat.tolist()}
    # an origin at zero may also be left out altogether
    okw = {"origin": o_vec}
    if not np.any(origin) and case["i"] % 2 == 0:
        okw = {}
        res.tag("top-side-origin-omitted")
    with quiet(), np.errstate(all="ignore"):
        o = attempt(get_direction, which, data=dg, **okw, **kw)
    label = f"direction {which!r} ({n} cells, {int(inside.sum())} inside R={R:.3g} {pu}{'' if okw else ', origin omitted'})"
    if not o.ok or o.value is None:
        res.violate("direction-rejected", f"{label}: {o.describe()}", tb=o.tb)
        return
    b = o.value
    if not check_basis(res, label, b):
        return
    nvec = np.asarray(comps(b.n), float)
    if which.lower() == "top":
        if np.max(np.abs(nvec - Lhat)) > 1e-8:
            res.violate("top-not-along-L", f"{label}: n = {nvec.tolist()} but L/|L| = {Lhat.tolist()}")
    else:
        if abs(float(np.dot(nvec, Lhat))) > 1e-8:
            res.violate("side-L-not-in-plane", f"{label}: n.L/|L| = {float(np.dot(nvec, Lhat))!r}")


def _discseq(case, ctx, res, osy, get_direction):
    """several 'top'/'side' requests on ONE dataset: two clumps spinning about different axes, looked at in turn
    with the same window, and velocities changed in place between requests - each answer must follow the
    angular momentum of the cells inside the *current* window"""
    rng = ctx.rng("discseq", case["i"])
    n = 150
    axes = [rng.normal(size=3) for _ in range(2)]
    axes = [a / np.linalg.norm(a) for a in axes]
    centres = [np.array([-3.0, 0.0, 0.0]) + rng.normal(size=3) * 0.2, np.array([3.0, 0.5, 0.0]) + rng.normal(size=3) * 0.2]
    pos = np.concatenate([c + rng.uniform(-0.8, 0.8, size=(n, 3)) for c in centres])
    vel = np.concatenate([np.cross(a * 2.0, pos[k * n:(k + 1) * n] - c) for k, (a, c) in enumerate(zip(axes, centres))])
    vel += 0.05 * rng.normal(size=vel.shape)
    mass = 10.0 ** rng.uniform(-1, 1, size=2 * n)
    dg = osy.Datagroup()
    dg["position"] = osy.Vector(pos[:, 0].copy(), pos[:, 1].copy(), pos[:, 2].copy(), unit="au")
    dg["velocity"] = osy.Vector(vel[:, 0].copy(), vel[:, 1].copy(), vel[:, 2].copy(), unit="km/s")
    dg["mass"] = osy.Array(values=mass.copy(), unit="M_sun")
    R = 1.0
    kw = {"dx": 2 * R * osy.units("au"), "dy": 2 * R * osy.units("au")}
    res.nontrivial = True
    res.digest_src = {"discseq": case["i"]}
    steps = []
    for step in range(int(rng.integers(3, 7))):
        k = int(rng.integers(0, 2))
        which = "top" if rng.random() < 0.5 else "side"
        if rng.random() < 0.3:
            # spin everything up / reverse it in place: same objects, new numbers
            f = float(rng.choice([-1.0, 2.0, 0.5]))
            if f < 0:
                # reverse only clump 1, so the two windows change differently
                for c in "xyz":
                    getattr(dg["velocity"], c).values[n:] *= -1.0
                vel[n:] *= -1.0
            steps.append(f"velocity-changed({f})")
        o_np = centres[k]
        r = pos - o_np
        dist = np.linalg.norm(r, axis=1)
        if np.any(np.abs(dist - R) < 1e-7):
            continue
        inside = dist < R
        L = np.sum(mass[inside, None] * np.cross(r[inside], vel[inside]), axis=0)
        if np.linalg.norm(L) < 1e-9:
            continue
        Lhat = L / np.linalg.norm(L)
        steps.append(f"{which}@clump{k}")
        res.count("top-side-sequences")
        with quiet(), np.errstate(all="ignore"):
            o = attempt(get_direction, which, data=dg, origin=osy.Vector(*o_np, unit="au"), **kw)
        label = f"request {step} {which!r} at clump {k} after {steps[:-1]}"
        if not o.ok or o.value is None:
            res.violate("direction-rejected", f"{label}: {o.describe()}", tb=o.tb)
            return
        if not check_basis(res, label, o.value):
            return
        nvec = np.asarray(comps(o.value.n), float)
        if which == "top" and np.max(np.abs(nvec - Lhat)) > 1e-8:
            res.violate("top-not-along-L", f"{label}: n = {nvec.tolist()} but the cells in the current window have L/|L| = {Lhat.tolist()}")
            return
        if which == "side" and abs(float(np.dot(nvec, Lhat))) > 1e-8:
            res.violate("side-L-not-in-plane", f"{label}: n.L/|L| = {float(np.dot(nvec, Lhat))!r} for the current window")
            return
    res.sample = {"requests": steps}
