"""C16 - sub-domain extraction returns exactly the rows inside the region.

Membership model on physical quantities (vmon.unitsref) with a decisive-margin rule plus exact boundary cases
built from exactly representable numbers (3-4-5 offsets); row tags identify the source row of every returned
row of every member; fingerprints of the input dataset before/after.
"""
import shutil

import numpy as np

from .. import io_monitors as iom
from .. import ramses_synth as rs
from ..snapshot import diff, fp
from ..unitsref import scale_dims
from ..util import attempt

TITLE = "Sub-domain extraction returns exactly the rows inside the region"
RULE = (
    "case i -> rng(seed, C16, i): hand-built datasets (mesh + part + sink + a group without positions of the mesh's "
    "length + a group without positions of another length; Arrays and 1-3 component Vectors; 0..2000 rows; "
    "positions in cm/au/pc/km) and datasets returned by the real loader; extract_sphere / extract_box with origin, "
    "radius / sizes in any length unit (Array or Quantity), regions containing nothing, everything, or part of "
    "the rows; boundary cases with rows exactly at distance R (must be out) and exactly at half-size (must be "
    "in).  Non-trivial = the region contains some but not all rows of a group and the units of origin/size differ "
    "from the positions'; distinct = distinct (dataset layout, region)."
)
ASSUMPTIONS = ["rows within 1e-9 relative of the boundary are judged only in the exact-boundary cases",
               "extract_box is exercised on 3-D positions (it addresses the x, y and z components)"]
LU = ["cm", "au", "pc", "km"]


def plan(tier):
    return {"shards": 16, "timeout": 1200 if tier == "quick" else 5 * 3600,
            "required_monitors": ["membership", "row-alignment", "input-unchanged", "meta-carried", "exact-boundary",
                                  "loader-dataset"],
            "required_tags": ["empty-region", "full-region", "group-without-positions", "group-ignored", "sphere", "box",
                              "no-mesh-group", "part-rows-equal-mesh-rows"]}


def cases(ctx):
    n = 300 if ctx.tier == "quick" else 20000
    out = [{"id": f"bnd{i}", "kind": "boundary", "i": i} for i in range(24)]
    out += [{"id": f"r{i}", "kind": "random", "i": i} for i in range(n)]
    m = 12 if ctx.tier == "quick" else 400
    out += [{"id": f"L{i}", "kind": "loader", "i": i} for i in range(m)]
    return out


def uf(osy, a, b):
    return scale_dims(osy.units(a))[0] / scale_dims(osy.units(b))[0]


def build_dataset(osy, rng, ndim=3, nmesh=None):
    """-> (dataset, info: group -> dict(pos (n, ndim) in cm or None, n))"""
    ds = osy.Dataset()
    info = {}
    nmesh_given = nmesh
    nmesh = int(rng.integers(0, 400)) if nmesh is None else nmesh
    layout = []
    no_mesh = nmesh_given is None and rng.random() < 0.12      # a dataset of particles/sinks only: nothing to fall back on
    npart = int(rng.integers(0, 200))
    if not no_mesh and nmesh and rng.random() < 0.3:
        npart = nmesh        # as many particles as cells: the particles' own positions still decide
        same_rows = True
    else:
        same_rows = False
    # (without a mesh group the position-less group has as many rows as the particle group: still nothing to fall back on)
    for gname, n in (("mesh", nmesh), ("part", npart), ("sink", int(rng.integers(0, 6))),
                     ("extra", npart if no_mesh else nmesh), ("other", nmesh + 3)):
        if gname in ("part", "sink") and rng.random() < 0.25:
            continue
        if gname == "other" and rng.random() < 0.5:
            continue
        if gname == "extra" and rng.random() < 0.4:
            continue
        if gname == "mesh" and no_mesh:
            continue
        if n == 0 and gname != "mesh":
            continue
        g = osy.Datagroup()
        unit = str(rng.choice(LU))
        pos_cm = None
        if gname in ("mesh", "part", "sink"):
            p = rng.uniform(-1, 1, size=(n, ndim)) * 10.0 ** float(rng.uniform(-1, 1))
            g["position"] = osy.Vector(*[p[:, d].copy() for d in range(ndim)], unit=unit)
            pos_cm = p * scale_dims(osy.units(unit))[0]
        g["tag"] = osy.Array(values=np.arange(n, dtype=float) + 0.5, unit="g")
        g["itag"] = osy.Array(values=np.arange(n, dtype="int64") * 3)
        if rng.random() < 0.7:
            g["vec"] = osy.Vector(*[np.arange(n, dtype=float) * (k + 2) for k in range(int(rng.integers(1, 4)))], unit="km/s")
        if n == 0:
            # an empty group keeps its keys
            pass
        ds[gname] = g
        info[gname] = {"pos_cm": pos_cm, "n": n, "unit": unit}
        layout.append((gname, n, unit))
    ds.meta["time"] = 3.5 * osy.units("s")
    ds.meta["ndim"] = ndim
    ds.meta["marker"] = [1, 2, 3]
    if same_rows and "part" in info and "mesh" in info:
        layout.append(("part-has-as-many-rows-as-mesh", nmesh, ""))
    return ds, info, layout


def expected_rows(info, gname, region):
    """-> boolean mask of rows of group gname inside the region, an 'undecided' mask, or None if the group has
    no usable positions"""
    me = info[gname]
    pos = me["pos_cm"]
    if pos is None:
        mesh = info.get("mesh")
        if mesh is None or mesh["pos_cm"] is None or mesh["n"] != me["n"]:
            return None, None
        pos = mesh["pos_cm"]
    d = pos - region["origin_cm"][None, :]
    if region["kind"] == "sphere":
        r = np.sqrt((d.astype(np.longdouble) ** 2).sum(axis=1))
        inside = r < region["R_cm"]
        und = np.abs(r - region["R_cm"]) <= 1e-9 * region["R_cm"]
    else:
        hs = region["half_cm"][None, :]
        inside = np.all(np.abs(d) <= hs, axis=1)
        und = np.any(np.abs(np.abs(d) - hs) <= 1e-9 * hs, axis=1)
    return np.asarray(inside, dtype=bool), np.asarray(und, dtype=bool)


def call_extract(osy, ds, region):
    ou = region["origin_unit"]
    o = region["origin_cm"] / scale_dims(osy.units(ou))[0]
    origin = osy.Vector(*[float(v) for v in o], unit=ou)
    if region["kind"] == "sphere":
        ru = region["size_unit"]
        rv = region["R_cm"] / scale_dims(osy.units(ru))[0]
        radius = osy.Array(values=float(rv), unit=ru) if region["as_array"] else float(rv) * osy.units(ru)
        return attempt(lambda: osy.extract_sphere(ds, radius=radius, origin=origin))
    sus = region.get("size_units") or [region["size_unit"]] * 3      # dx, dy, dz may come in different length units
    sz = [2 * h / scale_dims(osy.units(u))[0] for h, u in zip(region["half_cm"], sus)]
    mk = (lambda v, u: osy.Array(values=float(v), unit=u)) if region["as_array"] else (lambda v, u: float(v) * osy.units(u))
    return attempt(lambda: osy.extract_box(ds, dx=mk(sz[0], sus[0]), dy=mk(sz[1], sus[1]), dz=mk(sz[2], sus[2]), origin=origin))


def judge(res, osy, ds, info, region, label, before, exact=False):
    out = call_extract(osy, ds, region)
    res.count("input-unchanged")
    after = fp(ds)
    if after != before:
        res.violate("input-modified", f"{label}: the input dataset was modified: {diff(before, after)}")
        return
    if not out.ok:
        mech = "extract-raised"
        if isinstance(out.exc, KeyError) and "amr" in str(out.exc):
            mech = "fallback-group-name-amr"
        res.violate(mech, f"{label}: {out.describe()}", tb=out.tb)
        return
    sub = out.value
    if type(sub).__name__ not in ("Dataset", "RamsesDataset") or sub is ds:
        res.violate("not-a-new-dataset", f"{label}: returned {type(sub).__name__}{' (the input itself)' if sub is ds else ''}")
        return
    res.count("meta-carried")
    for k, v in ds.meta.items():
        if k not in sub.meta or fp(sub.meta[k]) != fp(v):
            res.violate("meta-not-carried", f"{label}: meta[{k!r}] missing or different in the result")
            return
    if sub.meta is ds.meta:
        res.violate("meta-shared", f"{label}: the result shares its meta dict with the input")
    any_partial = False
    for gname in ds.keys():
        inside, und = expected_rows(info, gname, region)
        g = ds[gname]
        if inside is None:
            res.tag("group-ignored")
            if gname in sub.keys():
                res.violate("group-without-positions-returned", f"{label}: group {gname!r} has no usable positions but is in the result")
            continue
        if info[gname]["pos_cm"] is None:
            res.tag("group-without-positions")
        if und.any() and not exact:
            res.count("near-boundary-not-judged")
            continue
        res.count("membership")
        n_in = int(inside.sum())
        if n_in == 0:
            res.tag("empty-region")
            if gname in sub.keys():
                res.violate("empty-group-present", f"{label}: no row of {gname!r} is inside, yet the group is returned with shape {sub[gname].shape}")
            continue
        if n_in == len(inside):
            res.tag("full-region")
        else:
            any_partial = True
        if gname not in sub.keys():
            res.violate("group-missing", f"{label}: {n_in} rows of {gname!r} are inside the region but the group is missing")
            continue
        sg = sub[gname]
        if list(sg.keys()) != list(g.keys()):
            res.violate("members-lost", f"{label}: group {gname!r} keys {list(sg.keys())} != {list(g.keys())}")
            continue
        res.count("row-alignment")
        want = np.argwhere(inside).ravel()
        for key in g.keys():
            a, b = g[key], sg[key]
            ca = [a] if type(a).__name__ == "Array" else [getattr(a, c_) for c_ in "xyz" if getattr(a, c_) is not None]
            cb = [b] if type(b).__name__ == "Array" else [getattr(b, c_) for c_ in "xyz" if getattr(b, c_) is not None]
            if type(a) is not type(b) or len(ca) != len(cb):
                res.violate("member-type", f"{label}: {gname}[{key!r}] changed type")
                break
            bad = False
            for x, y in zip(ca, cb):
                xv, yv = np.asarray(x.values), np.asarray(y.values)
                if y.unit != x.unit:
                    res.violate("unit-lost", f"{label}: {gname}[{key!r}] unit {y.unit!s} != {x.unit!s}")
                    bad = True
                    break
                if yv.shape != (n_in,) or not np.array_equal(yv, xv[want]):
                    got_rows = "?"
                    if key == "tag" and yv.ndim == 1:
                        got_rows = (yv - 0.5).astype(int).tolist()[:10]
                    mech = "wrong-rows" if key in ("tag", "itag") else "rows-misaligned"
                    res.violate(mech, f"{label}: {gname}[{key!r}] holds {yv.shape[0] if yv.ndim else 0} rows {got_rows}, the region "
                                f"contains rows {want[:10].tolist()} ({n_in} in total)")
                    bad = True
                    break
            if bad:
                break
    return any_partial


def draw_region(osy, rng, info, ndim, kind):
    mesh = info.get("mesh") or next(iter(info.values()), {"pos_cm": None})
    pos = mesh["pos_cm"] if mesh["pos_cm"] is not None and len(mesh["pos_cm"]) else np.zeros((1, ndim))
    scale = float(np.max(np.abs(pos))) or 1.0
    mode = str(rng.choice(["partial", "partial", "partial", "nothing", "everything", "tiny"]))
    o = pos[int(rng.integers(0, len(pos)))] + rng.normal(size=ndim) * scale * 0.1
    if mode == "nothing":
        o = o + scale * 100
        size = scale * 0.1
    elif mode == "everything":
        o = np.zeros(ndim)
        size = scale * 10
    elif mode == "tiny":
        size = scale * 1e-3
    else:
        size = scale * float(rng.uniform(0.2, 1.2))
    reg = {"kind": kind, "origin_cm": np.asarray(o, dtype=float), "origin_unit": str(rng.choice(LU)),
           "size_unit": str(rng.choice(LU)), "as_array": bool(rng.random() < 0.5), "mode": mode}
    if kind == "sphere":
        reg["R_cm"] = float(size)
    else:
        reg["half_cm"] = np.asarray([size * float(rng.uniform(0.5, 1.5)) for _ in range(3)])
        if rng.random() < 0.5:
            reg["size_units"] = [str(rng.choice(LU)) for _ in range(3)]
    return reg


def run_case(case, ctx, res):
    osy = ctx.osyris
    kind = case["kind"]
    if kind == "boundary":
        return _boundary(case, ctx, res, osy)
    if kind == "loader":
        return _loader(case, ctx, res, osy)
    rng = ctx.rng(case["i"])
    rk = "sphere" if rng.random() < 0.5 else "box"
    ndim = 3 if rk == "box" else int(rng.choice([2, 3]))
    ds, info, layout = build_dataset(osy, rng, ndim)
    reg = draw_region(osy, rng, info, ndim, rk)
    res.tag(rk)
    before = fp(ds)
    label = f"extract_{rk}({reg['mode']}, origin in {reg['origin_unit']}, size in {reg['size_unit']}, {'Array' if reg['as_array'] else 'Quantity'})"
    partial = judge(res, osy, ds, info, reg, label, before)
    if not res.violations and rng.random() < 0.5:
        # a second extraction from the same dataset with another region: the answer depends on the arguments only
        rk2 = rk if ndim == 2 else ("box" if rng.random() < 0.5 else "sphere")
        reg2 = draw_region(osy, rng, info, ndim, rk2)
        res.count("second-extraction-same-dataset")
        judge(res, osy, ds, info, reg2, f"second call extract_{rk2}({reg2['mode']}) on the same dataset after " + label, fp(ds))
    res.nontrivial = bool(partial) and (reg["origin_unit"] != (info.get("mesh") or next(iter(info.values()), {"unit": None}))["unit"]
                                            or reg["size_unit"] != (info.get("mesh") or next(iter(info.values()), {"unit": None}))["unit"])
    if "mesh" not in info:
        res.tag("no-mesh-group")
    if any(x[0] == "part-has-as-many-rows-as-mesh" for x in layout):
        res.tag("part-rows-equal-mesh-rows")
    res.digest_src = {"layout": layout, "reg": {k: (v.tolist() if isinstance(v, np.ndarray) else v) for k, v in reg.items()}}
    res.sample = {"groups": layout, "region": {"kind": rk, "mode": reg["mode"], "origin_unit": reg["origin_unit"],
                                              "size_unit": reg["size_unit"]}}


def _boundary(case, ctx, res, osy):
    """rows exactly on the boundary, built from exactly representable numbers in ONE unit"""
    i = case["i"]
    rk = "sphere" if i % 2 == 0 else "box"
    unit = LU[(i // 2) % 4]
    f = scale_dims(osy.units(unit))[0]
    k = float(2 ** ((i // 8) % 3))            # scale by powers of two: stays exact
    # offsets from the origin (in `unit`): 3-4-5 triangles have length exactly 5
    offs = np.array([[3, 4, 0], [0, 3, 4], [4, 0, 3], [5, 0, 0], [0, 0, 5], [3, 4, 1], [3, 3.5, 0], [0, 0, 0], [5, 5, 5],
                     [2.5, 0, 0], [-5, 0, 0], [0, -2.5, 2.5], [2.5, 2.5, 2.5], [2.5, 2.5, 2.75]]) * k
    o = np.array([8.0, -16.0, 32.0]) * k
    pos = offs + o
    ds = osy.Dataset()
    g = osy.Datagroup()
    g["position"] = osy.Vector(pos[:, 0].copy(), pos[:, 1].copy(), pos[:, 2].copy(), unit=unit)
    g["tag"] = osy.Array(values=np.arange(len(pos), dtype=float) + 0.5, unit="g")
    g["itag"] = osy.Array(values=np.arange(len(pos), dtype="int64") * 3)
    ds["mesh"] = g
    ds.meta["marker"] = 1
    info = {"mesh": {"pos_cm": pos * f, "n": len(pos), "unit": unit}}
    # exact membership computed on the exact small numbers, not through the CGS scale
    if rk == "sphere":
        inside = (offs ** 2).sum(axis=1) < (5.0 * k) ** 2
        reg = {"kind": "sphere", "origin_cm": o * f, "origin_unit": unit, "size_unit": unit, "as_array": i % 4 < 2,
               "R_cm": 5.0 * k * f, "mode": "exact-boundary"}
    else:
        inside = np.all(np.abs(offs) <= 2.5 * k, axis=1)
        reg = {"kind": "box", "origin_cm": o * f, "origin_unit": unit, "size_unit": unit, "as_array": i % 4 < 2,
               "half_cm": np.array([2.5, 2.5, 2.5]) * k * f, "mode": "exact-boundary"}
    res.tag(rk)
    res.count("exact-boundary")
    res.nontrivial = True
    res.digest_src = {"boundary": i}
    res.sample = {"exact_boundary": rk, "unit": unit, "scale": k, "rows_inside": np.argwhere(inside).ravel().tolist()}
    before = fp(ds)
    # monkey: make expected_rows use the exact mask
    out = call_extract(osy, ds, reg)
    if fp(ds) != before:
        res.violate("input-modified", f"exact-boundary {rk}: input modified")
    if not out.ok:
        mech = "fallback-group-name-amr" if isinstance(out.exc, KeyError) and "amr" in str(out.exc) else "extract-raised"
        res.violate(mech, f"exact-boundary {rk} [{unit}]: {out.describe()}", tb=out.tb)
        return
    got = (np.asarray(out.value["mesh"]["tag"].values) - 0.5).astype(int).tolist() if "mesh" in out.value.keys() else []
    want = np.argwhere(inside).ravel().tolist()
    if got != want:
        on = "rows at distance exactly R must be outside" if rk == "sphere" else "rows at exactly half the size must be inside"
        res.violate("boundary-rule", f"exact-boundary {rk} [{unit}, scale {k}]: returned rows {got}, expected {want} ({on})")


def _loader(case, ctx, res, osy):
    rng = ctx.rng("loader", case["i"])
    spec = rs.random_spec(rng, ndim=3, ncpu=int(rng.choice([1, 2, 4])), max_octs=150, grav=False, rt=None,
                          nboundary=0, nxyz=[1, 1, 1])
    spec["part"] = rs.make_part(rng, spec)
    spec["part"]["descriptor"] = [list(x) for x in rs.PART_SETS[0]]
    spec["part"]["counts"] = [int(rng.integers(1, 30)) for _ in range(spec["ncpu"])]
    spec["sink"] = rs.make_sink(rng, spec)
    spec["sink"].update(legacy=False, empty_file=False, n=3, columns=[list(c) for c in rs.SINK_COLUMNS[:9]])
    model = rs.build(spec)
    path = ctx.scratch("c16-")
    try:
        rs.write(model, path)
        out, _, _ = iom.load(osy, path, spec["nout"])
        if not out.ok:
            res.inconclusive.append("loader failed: " + out.describe()[:100])
            return
        ds = out.value
        res.count("loader-dataset")
        info = {}
        for gname in ds.keys():
            g = ds[gname]
            pos = None
            if "position" in g.keys():
                p = g["position"].to("cm")
                pos = np.stack([np.asarray(getattr(p, c).values, dtype=float) for c in "xyz"], axis=1)
            info[gname] = {"pos_cm": pos, "n": g.shape[0] if g.shape else 0, "unit": "cm"}
        rk = "sphere" if case["i"] % 2 == 0 else "box"
        reg = draw_region(osy, rng, info, 3, rk)
        res.tag(rk)
        before = fp(ds)
        partial = judge(res, osy, ds, info, reg, f"extract_{rk} on a loaded dataset ({reg['mode']})", before)
        res.nontrivial = bool(partial)
        res.digest_src = {"loader": case["i"]}
        res.sample = {"loaded_groups": {k: v["n"] for k, v in info.items()}, "region": rk, "mode": reg["mode"]}
    finally:
        shutil.rmtree(path, ignore_errors=True)
