"""C07 - comparisons and logical operators compare physical quantities.

Oracle: comparison of the operands as physical quantities in extended precision
with a decisive-margin rule: an element is judged only if the two quantities
differ by more than `margin` relative, or are equal *by construction* (same unit
and identical numbers, or an exactly representable integer conversion factor
applied to small integers).  Near-ties produced only by rounding of a
conversion factor are never judged.
"""
import operator

import numpy as np

from .. import gen
from ..snapshot import fp
from ..unitsref import FAMILIES, Q, scale_dims
from ..util import attempt

TITLE = "Comparisons and logical operators compare physical quantities"
RULE = (
    "case i -> rng(seed, C07, i): one of six comparisons x right operand kind (Array, int, float, "
    "numpy scalar, ndarray, Quantity) x dtypes x shapes (0-d, broadcast pairs) x unit pair; the right "
    "operand is built in physical space as A*(1+-delta) (delta>=1e-6, or 1e-3 with float32), A exactly, "
    "or unrelated, so raw-number and physical verdicts differ whenever units differ; plus four logical "
    "operators on boolean Arrays vs numpy.  Non-trivial = units differ and >=1 judged element whose "
    "physical verdict differs from the raw-number verdict (comparisons), or non-1-d/broadcast shapes "
    "(logical); distinct = distinct (op, kind, dtypes, shapes, units)."
)
ASSUMPTIONS = [
    "pint's reduction to base units is correct",
    "elements closer than the decisive margin (and not equal by construction) are not judged",
]

CMP = {"lt": operator.lt, "le": operator.le, "gt": operator.gt, "ge": operator.ge,
       "eq": operator.eq, "ne": operator.ne}
CMP_NAMES = sorted(CMP)
KINDS = ["array", "array", "array", "quantity", "ndarray", "float", "int", "npscalar"]
LOGICAL = ["and", "or", "xor", "not"]


def plan(tier):
    return {"shards": 16, "timeout": 900 if tier == "quick" else 4 * 3600,
            "required_monitors": ["cmp-oracle", "cmp-must-raise", "logical-oracle"]}


def cases(ctx):
    out = []
    k = 0
    for op in CMP_NAMES:
        for kind in ("array", "quantity", "ndarray", "float"):
            for rel in ("same", "compatible", "incompatible"):
                for dt in ("float64", "float32", "int64"):
                    out.append({"id": f"fix{k}", "fixed": True, "i": k, "op": op, "kind": kind,
                                "rel": rel, "dtype": dt})
                    k += 1
    # the classic pairs that flip only because of the conversion factor
    for j, (va, ua, vb, ub) in enumerate([
        (1.0, "m", 99.0, "cm"), (1.0, "m", 101.0, "cm"), (1.0, "m", 100.0, "cm"),
        (1.0, "pc", 3.0e18, "cm"), (1.0, "pc", 3.1e18, "cm"), (1.0, "M_sun", 2.0e33, "g"),
        (1.0, "M_sun", 1.9e33, "g"), (1.0, "km/s", 99999.0, "cm/s"), (2.0, "yr", 700.0, "day"),
        (1.0, "au", 1.4e8, "km"), (1.0, "au", 1.6e8, "km"), (3.0, "kg", 3000.0, "g"),
    ]):
        out.append({"id": f"pair{j}", "pair": [va, ua, vb, ub], "i": j})
    n = 5000 if ctx.tier == "quick" else 300000
    for i in range(n):
        out.append({"id": f"r{i}", "i": i})
    m = 600 if ctx.tier == "quick" else 30000
    for i in range(m):
        out.append({"id": f"L{i}", "logical": True, "i": i})
    return out


def _exact_ratio(osy, u_from, u_to):
    """conversion factor u_from -> u_to if it is an exact integer in floating point, else None"""
    try:
        r = (1.0 * osy.units(u_from)).to(osy.units(u_to)).magnitude
    except Exception:  # noqa: BLE001
        return None
    if r == int(r) and 1 <= r <= 1e9:
        return float(r)
    return None


def run_case(case, ctx, res):
    if case.get("logical"):
        return run_logical(case, ctx, res)
    osy = ctx.osyris
    if "pair" in case:
        va, ua, vb, ub = case["pair"]
        for op in CMP_NAMES:
            _one_cmp(osy, res, op, "array", np.array([va]), ua, np.array([vb]), ub, "compatible",
                     "float64", "float64")
        res.nontrivial = True
        res.sample = {"pair": case["pair"]}
        return
    if case.get("fixed"):
        rng = np.random.default_rng(np.random.SeedSequence([20240207, 7, case["i"]]))
        op, kind, rel, dt1 = case["op"], case["kind"], case["rel"], case["dtype"]
        dt2 = dt1
    else:
        rng = ctx.rng(case["i"])
        op = CMP_NAMES[int(rng.integers(0, 6))]
        kind = KINDS[int(rng.integers(0, len(KINDS)))]
        rel = None
        dt1, dt2 = gen.draw_dtype(rng), gen.draw_dtype(rng)
    unitless = kind in ("ndarray", "float", "int", "npscalar")
    if unitless:
        # a plain operand counts as dimensionless: compatible only with a dimensionless lhs
        if rng.random() < 0.5:
            f1, u1 = "dimensionless", gen.draw_unit(rng, "dimensionless")
            rel = "same"
        else:
            f1 = gen.draw_family(rng, exclude=("dimensionless",))
            u1 = gen.draw_unit(rng, f1)
            rel = "incompatible"
        u2 = ""
    else:
        f1, u1, f2, u2, rel = gen.draw_unit_pair(rng, rel)
    if not gen.float32_safe(osy, (dt1, dt2), (u1, u2)):
        dt1 = dt2 = "float64"
    shape1 = gen.draw_shape(rng)
    shape2 = gen.broadcast_partner(rng, shape1)
    if kind in ("float", "int", "npscalar"):
        shape2 = ()
    if kind == "int":
        dt2 = "int64"
    v1 = gen.draw_values(rng, shape1, dt1, small=True)
    # build the right operand in physical space
    s1, _ = scale_dims(osy.units(u1))
    s2, _ = scale_dims(osy.units(u2))
    bshape = np.broadcast_shapes(shape1, shape2)
    if rel == "incompatible":
        v2 = gen.draw_values(rng, shape2, dt2, small=True)
    else:
        base = np.broadcast_to(np.asarray(v1, dtype=float), bshape) * (s1 / s2)
        # reduce to shape2 by taking the leading elements along broadcast axes
        idx = tuple(slice(0, 1) if (len(shape2) < len(bshape) - ax or
                                    shape2[ax - (len(bshape) - len(shape2))] == 1) else slice(None)
                    for ax in range(len(bshape)))
        base = base[idx].reshape(shape2)
        mode = rng.integers(0, 4, size=base.shape)
        delta = 10.0 ** rng.uniform(-5.5 if "32" not in dt1 + dt2 else -2.5, 0, size=base.shape)
        v2f = np.where(mode == 0, base, np.where(mode == 1, base * (1 + delta),
                       np.where(mode == 2, base * (1 - delta), base * rng.uniform(-2, 2, size=base.shape))))
        if np.dtype(dt2).kind in "iu":
            v2f = np.clip(np.round(v2f), -2**31 + 1, 2**31 - 1)
        v2 = np.asarray(v2f).astype(dt2).reshape(shape2)
        # exact-equality candidates: same unit -> copy the numbers bit for bit
        if u1 == u2 and shape1 == shape2 and dt1 == dt2 and rng.random() < 0.5:
            keep = rng.random(shape1) < 0.5 if shape1 else np.array(rng.random() < 0.5)
            v2 = np.where(keep, v1, v2).astype(dt2).reshape(shape2)
    _one_cmp(osy, res, op, kind, v1, u1, v2, u2, rel, dt1, dt2)


def _one_cmp(osy, res, op, kind, v1, u1, v2, u2, rel, dt1, dt2, objs=None):
    if objs is not None:
        return _judge_cmp(osy, res, op, kind, v1, u1, v2, u2, rel, dt1, dt2, objs[0], objs[1])
    a = osy.Array(values=np.array(v1), unit=u1, name="a")
    if kind == "array":
        b = osy.Array(values=np.array(v2), unit=u2, name="b")
    elif kind == "quantity":
        b = np.array(v2) * osy.units(u2)
    elif kind == "ndarray":
        b = np.array(v2)
    elif kind == "float":
        b = float(np.asarray(v2).ravel()[0])
    elif kind == "int":
        b = int(np.asarray(v2).ravel()[0])
    else:
        b = np.asarray(v2).ravel()[0]
    ok = _judge_cmp(osy, res, op, kind, v1, u1, v2, u2, rel, dt1, dt2, a, b)
    # second pass on the same objects after a's numbers were changed in place
    if ok and kind in ("array", "quantity", "ndarray") and np.dtype(dt1).kind == "f" and np.shape(v1) and rel != "incompatible":
        res.count("repeat-after-mutation")
        new = np.abs(np.asarray(v1)) * 7 + 3
        a.values[...] = new
        if not _judge_cmp(osy, res, op, kind, np.array(a.values), u1, v2, u2, rel, dt1, dt2, a, b, again=True):
            return
        # ... and after the RIGHT operand was changed in place (its buffer, or through an in-place operator)
        if kind == "array" and np.dtype(dt2).kind == "f" and np.shape(v2):
            b.values[...] = np.asarray(b.values) * -3 - 1
            _judge_cmp(osy, res, op, kind, np.array(a.values), u1, np.array(b.values), u2, rel, dt1, dt2, a, b, again=True)


def _judge_cmp(osy, res, op, kind, v1, u1, v2, u2, rel, dt1, dt2, a, b, again=False):
    """-> True if judged without violation"""
    sig = {"op": op, "kind": kind, "dt": [dt1, dt2], "shapes": [list(np.shape(v1)), list(np.shape(b) if kind in ("ndarray", "float", "int", "npscalar") else np.shape(v2))],
           "units": [u1, u2], "rel": rel}
    res.digest_src = sig if res.digest_src is None else res.digest_src
    if res.sample is None:
        res.sample = dict(sig, a=np.asarray(v1), b=np.asarray(v2))
    before = (fp(a), fp(b))
    with np.errstate(all="ignore"):
        out = attempt(CMP[op], a, b)
    if (fp(a), fp(b)) != before:
        res.violate("operand-mutated", f"comparison {op} changed an operand", sig=sig)
    A = Q.of(np.asarray(v1), a.unit)
    bvals = np.asarray(b.magnitude if kind == "quantity" else (b.values if kind == "array" else b))
    B = Q.of(bvals, osy.units(u2))
    if dict(A.dims) != dict(B.dims):
        res.count("cmp-must-raise")
        if out.ok:
            res.violate("no-raise-incompatible",
                        f"{op}: {u1!r} vs {u2 or 'plain ' + kind!r} returned {str(out.value)[:100]} instead of raising",
                        sig=sig)
        return False
    res.count("cmp-oracle")
    if not out.ok:
        res.violate("raised-unexpectedly", f"{op} ({kind}, {u1!r} vs {u2!r}) {out.describe()}", sig=sig, tb=out.tb)
        return False
    r = out.value
    if type(r).__name__ != "Array":
        res.violate("wrong-type", f"{op} returned {type(r).__name__}", sig=sig)
        return False
    rv = np.asarray(r.values)
    exp_shape = np.broadcast_shapes(np.shape(v1), np.shape(bvals))
    if rv.dtype != np.bool_:
        res.violate("not-boolean", f"{op} result dtype {rv.dtype}", sig=sig)
        return False
    if scale_dims(r.unit)[1] != () or scale_dims(r.unit)[0] != 1.0:
        res.violate("not-dimensionless", f"{op} result unit {r.unit!s}", sig=sig)
    if rv.shape != exp_shape:
        res.violate("wrong-shape", f"{op} result shape {rv.shape} != broadcast {exp_shape}", sig=sig)
        return False
    Av, Bv = np.broadcast_arrays(A.v, B.v)
    raw1, raw2 = np.broadcast_arrays(np.asarray(v1, dtype=np.longdouble), np.asarray(bvals, dtype=np.longdouble))
    margin = 1e-6 if "32" not in dt1 + dt2 else 1e-3
    with np.errstate(all="ignore"):
        decisive = np.abs(Av - Bv) > np.longdouble(margin) * (np.abs(Av) + np.abs(Bv))
        # equal by construction
        exact = np.zeros(exp_shape, dtype=bool)
        if u1 == u2 or (scale_dims(osy.units(u1)) == scale_dims(osy.units(u2)) and
                        _exact_ratio(osy, u2, u1) == 1.0):
            exact = raw1 == raw2
        else:
            ratio = _exact_ratio(osy, u2, u1)
            if ratio is not None:
                conv = raw2 * np.longdouble(ratio)
                exact = (conv == raw1) & (np.abs(conv) < 2.0**40) & (raw2 == np.round(raw2))
        truth = CMP[op](Av, Bv)
        truth = np.where(exact, CMP[op](np.zeros(exp_shape), np.zeros(exp_shape)), truth)
    judged = decisive | exact
    res.count("cmp-elements-judged", int(judged.sum()))
    res.count("cmp-elements-exact-equal", int(exact.sum()))
    bad = judged & (rv != truth)
    rawverdict = CMP[op](raw1, raw2)
    if u1 != u2 and np.any(judged & (rawverdict != truth)):
        res.nontrivial = True
        res.count("verdict-flips-with-units")
    if np.any(bad):
        i = tuple(np.argwhere(bad)[0])
        mech = "wrong-verdict"
        if np.all(rv[judged] == rawverdict[judged]) and u1 != u2:
            mech = "compares-raw-numbers"
        res.violate(mech, f"{op} ({kind}) {u1!r} vs {u2!r}: {int(bad.sum())} of {int(judged.sum())} judged "
                    f"elements wrong; at {i}: a={float(raw1[i])!r} {u1}, b={float(raw2[i])!r} {u2}: "
                    f"got {bool(rv[i])}, physical verdict {bool(truth[i])}"
                    + (" [repeated on the same objects after a was changed in place]" if again else ""), sig=sig)
        return False
    return True


def run_logical(case, ctx, res):
    osy = ctx.osyris
    rng = ctx.rng("logical", case["i"])
    op = LOGICAL[int(rng.integers(0, 4))]
    shape1 = gen.draw_shape(rng)
    shape2 = gen.broadcast_partner(rng, shape1)
    x = rng.random(shape1) < 0.5
    y = rng.random(shape2) < 0.5
    kind = ["array", "array", "ndarray", "bool"][int(rng.integers(0, 4))]
    a = osy.Array(values=np.array(x))
    if kind == "array":
        b = osy.Array(values=np.array(y))
    elif kind == "ndarray":
        b = np.array(y)
    else:
        b = bool(np.asarray(y).ravel()[0])
        y = np.array(b)
    sig = {"op": op, "kind": kind, "shapes": [list(shape1), list(np.shape(y))]}
    res.digest_src = sig
    res.sample = dict(sig, a=x, b=y)
    res.nontrivial = len(shape1) != 1 or shape1 != tuple(np.shape(y))
    fn = {"and": lambda: a & b, "or": lambda: a | b, "xor": lambda: a ^ b, "not": lambda: ~a}[op]
    exp = {"and": lambda: np.logical_and(x, y), "or": lambda: np.logical_or(x, y),
           "xor": lambda: np.logical_xor(x, y), "not": lambda: np.logical_not(x)}[op]()
    before = (fp(a), fp(b))
    out = attempt(fn)
    res.count("logical-oracle")
    if (fp(a), fp(b)) != before:
        res.violate("operand-mutated", f"logical {op} changed an operand", sig=sig)
    if not out.ok:
        res.violate("raised-unexpectedly", f"logical {op} ({kind}) {out.describe()}", sig=sig, tb=out.tb)
        return
    r = out.value
    if type(r).__name__ != "Array":
        res.violate("wrong-type", f"logical {op} returned {type(r).__name__}", sig=sig)
        return
    rv = np.asarray(r.values)
    if rv.dtype != np.bool_ or rv.shape != np.shape(exp) or not np.array_equal(rv, exp):
        res.violate("logical-differs-from-numpy",
                    f"{op} ({kind}): got {rv.tolist()!r} expected {np.asarray(exp).tolist()!r}", sig=sig)
    if scale_dims(r.unit)[1] != ():
        res.violate("not-dimensionless", f"logical {op} result unit {r.unit!s}", sig=sig)
