"""C15 - the outcome of load() does not depend on earlier loads on the same dataset.

History + executable model, the model being a *fresh* RamsesDataset that only makes the call in question:
after every call of a sequence on one dataset object, every group the call produces must be bit-identical to
the fresh dataset's, groups produced only by earlier calls must be unchanged, and the counters in the
metadata must match the groups just loaded.
"""
import shutil

import numpy as np

from .. import io_monitors as iom
from .. import ramses_synth as rs
from .. import selections as sel
from ..snapshot import fp
from .c13 import same_member

TITLE = "The outcome of load() does not depend on earlier loads on the same dataset"
RULE = (
    "outputs: 3-D hilbert (4-8 CPUs, mesh+part+sink) and 2-D; argument alphabet A = {full, ['mesh'], ['part'], "
    "['sink'], variable subset, value predicate, position box narrowing the CPU list, level cap, cpu_list, "
    "sortby (particles, sinks by a column that reverses them, cells), part switched off}; quick: all ordered pairs of A on 2 outputs exhaustively + random triples; "
    "thorough: random sequences of length 2-6.  Non-trivial = the sequence contains a call that narrows state "
    "(box, level cap, cpu_list) followed by a call that must not be narrowed; distinct = distinct (output, "
    "sequence)."
)
ASSUMPTIONS = ["each single call from a fresh dataset is judged by C01/C04/C12/C13/C14"]

ALPHABET = ["full", "mesh-only", "part-only", "sink-only", "varsubset", "value", "box", "levelcap", "cpulist",
            "sortby", "part-off", "sortby-sink", "sortby-mesh", "levelcap-deeper", "levelband", "mesh-only-sortby-part",
            "levelcap-below-levelmin", "box-and-cap-below-levelmin"]
NARROWING = {"levelcap-below-levelmin", "box-and-cap-below-levelmin", "levelcap-deeper", "levelband", "box", "levelcap", "cpulist", "value", "varsubset", "mesh-only", "part-only", "sink-only", "part-off"}


def plan(tier):
    return {"shards": 16, "timeout": 1500 if tier == "quick" else 5 * 3600,
            "required_monitors": ["group-equals-fresh", "earlier-group-kept", "meta-counters"],
            "required_tags": ["box-then-other", "levelcap-then-other", "cpulist-then-other", "cpu-list-narrowed"]}


def cases(ctx):
    out = []
    for o in range(2):
        for a in ALPHABET:
            for b in ALPHABET:
                out.append({"id": f"pair-{o}-{a}-{b}", "out": o, "seq": [a, b]})
    n = 60 if ctx.tier == "quick" else 5000
    for i in range(n):
        out.append({"id": f"r{i}", "i": i})
    return out


def make_output(rng, kind):
    if kind == 0:
        spec = rs.random_spec(rng, ndim=3, ncpu=int(rng.choice([4, 6, 8])), max_octs=400)
        spec.update(levelmin=3, levelmax=5, ordering="hilbert", bound_style="equal", style="random", refine_prob=0.3,
                    nboundary=0, nxyz=[1, 1, 1], grav=True, rt=None,
                    hydro=["density", "velocity_x", "velocity_y", "velocity_z", "pressure"])
    else:
        spec = rs.random_spec(rng, ndim=2, ncpu=int(rng.choice([2, 3, 5])), max_octs=300)
        spec.update(levelmin=2, levelmax=5, nboundary=0, nxyz=[1, 1, 1], grav=False, rt=None,
                    hydro=["density", "velocity_x", "velocity_y", "pressure"])
    spec["part"] = rs.make_part(rng, spec)
    spec["part"]["counts"] = [int(rng.integers(1, 9)) for _ in range(spec["ncpu"])]
    spec["sink"] = rs.make_sink(rng, spec)
    spec["sink"]["empty_file"], spec["sink"]["n"] = False, max(spec["sink"]["n"], 2)
    return spec


def make_args(osy, name, model, rng):
    """-> (kwargs for load(), JSON description)"""
    sp = model.spec
    boxcm = sp["boxlen"] * sp["unit_l"]
    if name == "full":
        return {}, "load()"
    if name == "mesh-only":
        return {"select": ["mesh"]}, "select=['mesh']"
    if name == "part-only":
        return {"select": ["part"]}, "select=['part']"
    if name == "sink-only":
        return {"select": ["sink"]}, "select=['sink']"
    if name == "part-off":
        return {"select": {"part": False}}, "select={'part': False}"
    if name == "varsubset":
        return {"select": {"mesh": ["density", "level"], "part": ["mass"]}}, "select={'mesh': [density, level], 'part': [mass]}"
    if name == "value":
        exp = rs.expected_mesh(model)
        col = sel.model_column(model, exp, "density")
        thr = float(np.median(col)) * (1 + 1e-3)
        p = {"var": "density", "op": ">", "value": thr, "unit": "g/cm**3"}
        return {"select": {"mesh": sel.to_select(osy, [p])}}, f"select density > {thr:.4g}"
    if name == "box":
        h = 0.5 ** sp["levelmax"]
        c = 0.5 ** 3 + 0.5 ** 4          # well inside one corner of the domain
        preds = [{"var": "position_" + ax, "op": "between", "value": [(c - 1.3 * h) * boxcm, (c + 1.3 * h) * boxcm],
                  "unit": "cm"} for ax in "xyz"[:sp["ndim"]]]
        return {"select": {"mesh": sel.to_select(osy, preds)}}, f"select box around {c} +- {1.3 * h}"
    if name == "levelcap":
        k = sp["levelmin"]
        p = {"var": "level", "op": "<=", "value": k}
        return {"select": {"mesh": sel.to_select(osy, [p])}}, f"select level <= {k}"
    if name == "levelcap-below-levelmin":
        k = max(sp["levelmin"] - 1, 1)
        p = {"var": "level", "op": "<=", "value": k}
        return {"select": {"mesh": sel.to_select(osy, [p])}}, f"select level <= {k}"
    if name == "box-and-cap-below-levelmin":
        k = max(sp["levelmin"] - 1, 1)
        h = 0.5 ** sp["levelmax"]
        c = 0.5 ** 3 + 0.5 ** 4
        preds = [{"var": "position_" + ax, "op": "between", "value": [(c - 1.3 * h) * boxcm, (c + 1.3 * h) * boxcm],
                  "unit": "cm"} for ax in "xyz"[:sp["ndim"]]]
        preds.append({"var": "level", "op": "<=", "value": k})
        return {"select": {"mesh": sel.to_select(osy, preds)}}, f"select box around {c} +- {1.3 * h} and level <= {k}"
    if name == "levelcap-deeper":
        # a deeper cap than "levelcap": after a shallower cap, the levels in between must come back
        k = min(sp["levelmin"] + 2, sp["levelmax"])
        p = {"var": "level", "op": "<=", "value": k}
        return {"select": {"mesh": sel.to_select(osy, [p])}}, f"select level <= {k}"
    if name == "levelband":
        k = min(sp["levelmin"] + 1, sp["levelmax"])
        p = {"var": "level", "op": "<", "value": k + 1}
        return {"select": {"mesh": sel.to_select(osy, [p])}}, f"select level < {k + 1}"
    if name == "mesh-only-sortby-part":
        # a sort key for a group that this call does not load
        key = "identity" if any(n == "identity" for n, t in sp["part"]["descriptor"]) else sp["part"]["descriptor"][0][0]
        return {"select": ["mesh"], "sortby": {"part": key}}, f"select=['mesh'], sortby part {key}"
    if name == "cpulist":
        return {"cpu_list": [2]}, "cpu_list=[2]"
    if name == "sortby":
        key = "identity" if any(n == "identity" for n, t in sp["part"]["descriptor"]) else sp["part"]["descriptor"][0][0]
        return {"sortby": {"part": key}}, f"sortby part {key}"
    if name == "sortby-sink":
        # a column that descends with the row (odd column index in the synthesiser): sorting reverses the table
        cols = [c[0] for c in sp["sink"]["columns"]]
        odd = [c for k, c in enumerate(cols) if k % 2 == 1] or cols
        names = {"x": "position", "y": "position", "z": "position", "vx": "velocity", "vy": "velocity", "vz": "velocity",
                 "lx": "angular_momentum", "ly": "angular_momentum", "lz": "angular_momentum"}
        key = next((c for c in odd if c not in names), None)
        if key is None:
            key = next((c for c in cols if c not in names), cols[0])
        return {"sortby": {"sink": key}}, f"sortby sink {key}"
    if name == "sortby-mesh":
        return {"sortby": {"mesh": "density"}}, "sortby mesh density"
    raise ValueError(name)


def run_case(case, ctx, res):
    osy = ctx.osyris
    if "seq" in case:
        rng = np.random.default_rng(np.random.SeedSequence([20240215, 15, case["out"]]))
        kind, seq = case["out"], list(case["seq"])
    else:
        rng = ctx.rng(case["i"])
        kind = int(rng.integers(0, 2))
        n = int(rng.integers(3, 4)) if ctx.tier == "quick" else int(rng.integers(2, 7))
        seq = [ALPHABET[int(rng.integers(0, len(ALPHABET)))] for _ in range(n)]
    spec = make_output(rng, kind)
    model = rs.build(spec)
    res.digest_src = {"out": kind, "seq": seq, "seed": spec["tree_seed"]}
    for a, b in zip(seq, seq[1:]):
        if a in ("box", "levelcap", "cpulist") and b != a:
            res.nontrivial = True
            res.tag(f"{a}-then-other")
    path = ctx.scratch("c15-")
    try:
        rs.write(model, path)
        with iom.quiet():
            ds = osy.RamsesDataset(spec["nout"], path=path)
        descs = []
        kept = {}     # group -> fingerprint when last produced/checked
        for step, name in enumerate(seq):
            kw, desc = make_args(osy, name, model, rng)
            descs.append(desc)
            label = f"call {step} {desc} after {descs[:-1]}"
            fresh, _, fresh_opened = iom.load(osy, path, spec["nout"], **kw)
            iom.OpenLog.start(path)
            with iom.quiet():
                from ..util import attempt
                out = attempt(lambda: ds.load(**kw))
            opened = iom.OpenLog.stop()
            if fresh.ok != out.ok:
                res.violate("outcome-depends-on-history", f"{label}: fresh dataset {fresh.describe()[:150]}, "
                            f"this dataset {out.describe()[:150]}", seq=descs)
                return
            if not out.ok:
                continue     # the call is invalid by itself (both raise): not a statement about histories
            fresh = fresh.value
            if len(iom.cpus_opened(fresh_opened, "amr")) < spec["ncpu"] and name == "box":
                res.tag("cpu-list-narrowed")
            for g in fresh.keys():
                res.count("group-equals-fresh")
                if g not in ds.keys():
                    res.violate("group-missing-after-history", f"{label}: group {g!r} produced by a fresh dataset is absent", seq=descs)
                    return
                if set(ds[g].keys()) != set(fresh[g].keys()):
                    res.violate("group-differs-from-fresh", f"{label}: group {g!r} keys {sorted(ds[g].keys())} != fresh "
                                f"{sorted(fresh[g].keys())}", seq=descs)
                    return
                for key in fresh[g].keys():
                    msg = same_member(ds[g][key], fresh[g][key])
                    if msg:
                        mech = "group-differs-from-fresh"
                        fo, oo = iom.cpus_opened(fresh_opened, g if g != "mesh" else "amr"), iom.cpus_opened(opened, g if g != "mesh" else "amr")
                        if g in ("mesh", "part") and oo != fo:
                            mech = "stale-cpu-list"
                        res.violate(mech, f"{label}: {g}[{key!r}] differs from a fresh dataset's: {msg}; files opened "
                                    f"{sorted(oo)} vs fresh {sorted(fo)}", seq=descs)
                        return
                kept[g] = fp(ds[g])
            for g in list(kept):
                if g not in fresh.keys():
                    res.count("earlier-group-kept")
                    if g not in ds.keys() or fp(ds[g]) != kept[g]:
                        res.violate("earlier-group-changed", f"{label}: group {g!r} from an earlier call was changed or lost",
                                    seq=descs)
                        return
            res.count("meta-counters")
            if "mesh" in fresh.keys():
                rows = ds["mesh"].shape[0] if ds["mesh"].shape else 0
                if int(ds.meta["ncells"]) != rows:
                    res.violate("meta-ncells", f"{label}: meta['ncells'] = {ds.meta['ncells']}, mesh just loaded has {rows} rows",
                                seq=descs)
                    return
            if "part" in fresh.keys():
                rows = ds["part"].shape[0] if ds["part"].shape else 0
                if int(ds.meta["nparticles"]) != rows:
                    res.violate("meta-nparticles", f"{label}: meta['nparticles'] = {ds.meta['nparticles']}, part group has {rows}",
                                seq=descs)
                    return
            for k in ("ncells", "nparticles", "lmax"):
                if k in fresh.meta and ds.meta.get(k) != fresh.meta.get(k) and (
                        (k == "ncells" and "mesh" in fresh.keys()) or (k == "nparticles" and "part" in fresh.keys())):
                    res.violate("meta-differs-from-fresh", f"{label}: meta[{k!r}] = {ds.meta.get(k)} vs fresh {fresh.meta.get(k)}",
                                seq=descs)
                    return
        res.sample = {"output": "3-D hilbert" if kind == 0 else "2-D", "ncpu": spec["ncpu"], "calls": descs}
    finally:
        shutil.rmtree(path, ignore_errors=True)
