"""C13 - loading a subset of groups or variables equals projecting the full load.

Differential monitor: the same synthetic output is loaded twice from fresh datasets (full / restricted);
every requested variable must be bit-identical to the full load's, nothing excluded may be present, and
the vector naming oracle decides which component sets merge.
"""
import shutil

import numpy as np

from .. import io_monitors as iom
from .. import ramses_synth as rs

TITLE = "Loading a subset of groups or variables equals projecting the full load"
RULE = (
    "case i -> rng(seed, C13, i): a random output (mesh + optional grav/rt/part/sink, ndim 1-3, 1-8 CPUs) and a "
    "restriction in one of the forms: list of groups, groups switched off with False, list of variable names "
    "per group (random subsets across amr/hydro/grav/rt/part descriptors incl. dropped first/middle/last "
    "variables, whole descriptors, single components of vectors; hydro variables stored as int32 on single-CPU "
    "outputs), and mixtures.  Non-trivial = at least one "
    "variable is skipped that precedes a variable that is read, in a file with >=2 (level, domain) blocks; "
    "distinct = distinct (spec, restriction)."
)
ASSUMPTIONS = [
    "derived variables (mass, B_field) are expected exactly when their inputs are among the loaded variables",
    "the full load itself is judged by C01/C14",
    "mesh variables stored as int32 (the descriptor's type column) are generated on single-CPU outputs without boundary "
    "regions only: the reader steps over whole foreign blocks assuming doubles, which no RAMSES version contradicts",
]


def plan(tier):
    return {"shards": 16, "timeout": 1200 if tier == "quick" else 5 * 3600,
            "required_monitors": ["projection-equal", "excluded-absent", "vector-naming", "group-subset"],
            "required_tags": ["skip-before-read", "group-list", "group-false", "variable-list", "part-subset",
                              "incomplete-components", "int-typed-mesh-variable"]}


def cases(ctx):
    n = 400 if ctx.tier == "quick" else 30000
    out = [{"id": f"fix{i}", "i": i, "fixed": True} for i in range(40)]
    out += [{"id": f"r{i}", "i": i} for i in range(n)]
    return out


def same_member(a, b):
    if type(a).__name__ != type(b).__name__:
        return f"type {type(a).__name__} != {type(b).__name__}"
    def pub(v):      # the components through the public attributes
        return {c_: getattr(v, c_) for c_ in "xyz" if getattr(v, c_) is not None}
    comps_a = [a] if type(a).__name__ == "Array" else list(pub(a).items())
    if type(a).__name__ == "Vector":
        if list(pub(a).keys()) != list(pub(b).keys()):
            return f"components {list(pub(a).keys())} != {list(pub(b).keys())}"
        pairs = [(pub(a)[c], pub(b)[c]) for c in pub(a)]
    else:
        pairs = [(a, b)]
    for x, y in pairs:
        xv, yv = np.asarray(x.values), np.asarray(y.values)
        if xv.dtype != yv.dtype or xv.shape != yv.shape:
            return f"dtype/shape {xv.dtype}{xv.shape} != {yv.dtype}{yv.shape}"
        if not np.array_equal(xv, yv):
            bad = np.argwhere(xv != yv)
            return f"{len(bad)} of {xv.size} values differ (first row {bad[0].tolist()}: {xv[tuple(bad[0])]!r} vs {yv[tuple(bad[0])]!r})"
        if x.unit != y.unit:
            return f"unit {x.unit!s} != {y.unit!s}"
    return None


def group_vars(model):
    """names of the on-disk variables per group"""
    sp = model.spec
    mesh = ["level", "cpu", "dx"] + ["position_" + c for c in "xyz"[:sp["ndim"]]]
    mesh += rs.cell_vars(model, "hydro")
    if sp["grav"]:
        mesh += rs.cell_vars(model, "grav")
    if sp["rt"]:
        mesh += rs.cell_vars(model, "rt")
    out = {"mesh": mesh}
    if sp["part"]:
        out["part"] = [n for n, t in sp["part"]["descriptor"]]
    return out


def expected_keys(names, ndim, group):
    vectors, scalars = iom.vector_families(names, ndim)
    keys = set(vectors) | set(scalars)
    if group == "mesh":
        if "density" in keys and "dx" in keys:
            keys.add("mass")
        if "B_left" in keys and "B_right" in keys:
            keys.add("B_field")
    return keys, vectors


def make_spec(rng, fixed_i=None):
    kw = {}
    if (fixed_i is not None and fixed_i % 4 == 1) or (fixed_i is None and rng.random() < 0.15):
        kw = dict(ncpu=1, nboundary=0, nxyz=[1, 1, 1])
    spec = rs.random_spec(rng, max_octs=int(rng.choice([40, 200, 500])), **{**dict(ncpu=int(rng.choice([1, 2, 3, 5, 8]))), **kw})
    if rng.random() < 0.7:
        spec["part"] = rs.make_part(rng, spec)
    if rng.random() < 0.6:
        spec["sink"] = rs.make_sink(rng, spec)
    if fixed_i is not None:
        spec["hydro"] = rs._restrict_components(list(rs.HYDRO_SETS[fixed_i % len(rs.HYDRO_SETS)]), spec["ndim"], rng)
        spec["grav"] = bool(fixed_i % 2)
        spec["part"] = rs.make_part(rng, spec)
    # a mesh variable stored as a 4-byte integer (the descriptor has a type column): stepping over it advances by another
    # number of bytes than over a double.  Single-CPU outputs without boundary regions only - the reader's step over
    # whole foreign blocks assumes doubles, which no RAMSES version contradicts
    if spec["ncpu"] == 1 and spec["nboundary"] == 0 and len(spec["hydro"]) >= 3 and rng.random() < 0.8:
        k = int(rng.integers(0, len(spec["hydro"])))
        spec["hydro_types"] = {spec["hydro"][k]: "i"}
        if rng.random() < 0.4:
            spec["hydro_types"][spec["hydro"][int(rng.integers(0, len(spec["hydro"])))]] = "i"
    return spec


def make_restriction(rng, model, form):
    """-> (select argument, {group: list of variable names expected, or None = all}, groups expected absent)"""
    gv = group_vars(model)
    sp = model.spec
    groups_present = ["mesh"] + (["part"] if sp["part"] else []) + (["sink"] if sp["sink"] is not None else [])
    want = {g: None for g in groups_present}
    select = None
    if form == "group-list":
        k = int(rng.integers(1, 4))
        chosen = list(rng.choice(["mesh", "part", "sink"], size=k, replace=False))
        select = [str(c) for c in chosen]
        want = {g: None for g in groups_present if g in select}
    elif form == "group-false":
        off = [g for g in ["mesh", "part", "sink"] if rng.random() < 0.5] or ["part"]
        select = {g: False for g in off}
        want = {g: None for g in groups_present if g not in off}
    else:
        select = {}
        for g in ("mesh", "part"):
            if g not in gv or rng.random() < (0.15 if g == "mesh" else 0.4):
                continue
            names = gv[g]
            mode = rng.choice(["random", "drop-first", "drop-last", "drop-middle", "single", "one-component",
                               "hydro-only", "amr-only"])
            if mode == "random":
                sub = [n for n in names if rng.random() < 0.5]
            elif mode == "drop-first":
                sub = names[1:]
            elif mode == "drop-last":
                sub = names[:-1]
            elif mode == "drop-middle":
                j = len(names) // 2
                sub = names[:j] + names[j + 1:]
            elif mode == "single":
                sub = [names[int(rng.integers(0, len(names)))]]
            elif mode == "one-component":
                comps = [n for n in names if n.endswith("_x") or "_x_" in n]
                sub = [n for n in names if rng.random() < 0.5 and n not in comps] + comps[:1]
            elif mode == "hydro-only":
                sub = [n for n in names if n in sp["hydro"]] if g == "mesh" else names[::2]
            else:
                sub = names[:3 + sp["ndim"]] if g == "mesh" else names[1::2]
            if not sub:
                sub = [names[-1]]
            sub = list(rng.permutation(sub))
            select[g] = [str(s) for s in sub]
            want[g] = select[g]
        if rng.random() < 0.3 and "sink" in groups_present:
            select["sink"] = False
            want.pop("sink", None)
        if not select:
            select = {"mesh": [str(gv["mesh"][-1])]}
            want["mesh"] = select["mesh"]
    return select, want


def run_case(case, ctx, res):
    osy = ctx.osyris
    rng = (np.random.default_rng(np.random.SeedSequence([20240213, 13, case["i"]])) if case.get("fixed")
           else ctx.rng(case["i"]))
    spec = make_spec(rng, case["i"] if case.get("fixed") else None)
    form = ["group-list", "group-false", "variable-list", "variable-list", "variable-list"][
        case["i"] % 5 if case.get("fixed") else int(rng.integers(0, 5))]
    model = rs.build(spec)
    path = ctx.scratch("c13-")
    try:
        rs.write(model, path)
        select, want = make_restriction(rng, model, form)
        res.tag(form)
        if spec.get("hydro_types"):
            res.tag("int-typed-mesh-variable")
        res.digest_src = {"spec": iom.spec_brief(spec), "select": select}
        res.sample = {"spec": {k: spec[k] for k in ("ndim", "ncpu", "levelmax", "hydro", "grav", "rt")},
                      "part": spec["part"]["descriptor"] if spec["part"] else None, "select": select}
        full, _, _ = iom.load(osy, path, spec["nout"])
        if not full.ok:
            res.violate("load-raised", f"full load {full.describe()}", spec=iom.spec_brief(spec), tb=full.tb)
            return
        sub, _, opened = iom.load(osy, path, spec["nout"], select=select)
        if not sub.ok:
            res.violate("load-raised", f"load(select={select}) {sub.describe()}", spec=iom.spec_brief(spec), tb=sub.tb)
            return
        full, sub = full.value, sub.value
        # the same restricted load on the dataset that has just made the full load: what is excluded must not be
        # read again (the earlier groups stay exactly as they were), what is requested must still be the projection
        if case["i"] % 2 == 0:
            from ..snapshot import fp
            from ..util import attempt
            res.count("restricted-load-on-used-dataset")
            before = {g: fp(full[g]) for g in full.keys()}
            with iom.quiet():
                again = attempt(lambda: full.load(select=select))
            if not again.ok:
                res.violate("load-raised", f"load(select={select}) on a dataset that had made a full load {again.describe()}",
                            spec=iom.spec_brief(spec))
                return
            for g in sub.keys():
                for key in sub[g].keys():
                    if key not in full[g].keys() or same_member(full[g][key], sub[g][key]):
                        res.violate("projection-differs", f"load(select={select}) after a full load on the same dataset: "
                                    f"{g}[{key!r}] differs from the restricted load of a fresh dataset", spec=iom.spec_brief(spec))
                        return
            for g in before:
                if g not in sub.keys() and (g not in full.keys() or fp(full[g]) != before[g]):
                    res.violate("excluded-group-touched", f"load(select={select}) after a full load on the same dataset changed the "
                                f"excluded group {g!r}", spec=iom.spec_brief(spec))
                    return
            full, _, _ = iom.load(osy, path, spec["nout"])
            full = full.value
        gv = group_vars(model)
        # groups
        res.count("group-subset")
        exp_groups = set(want)
        if "sink" in exp_groups and spec["sink"] is None:
            exp_groups.discard("sink")
        got_groups = set(sub.keys())
        if got_groups != exp_groups:
            res.violate("groups-differ", f"load(select={select}) returned groups {sorted(got_groups)}, expected "
                        f"{sorted(exp_groups)}", spec=iom.spec_brief(spec))
            return
        nblocks = max(len(b) for b in model.files.values())
        for g in sorted(exp_groups):
            names = want[g]
            if g == "sink" or names is None:
                exp_keys = set(full[g].keys())
                vectors = {}
            else:
                exp_keys, vectors = expected_keys(names, spec["ndim"], g)
                all_names = gv[g]
                idx = sorted(all_names.index(n) for n in names if n in all_names)
                if idx and any(i not in idx for i in range(idx[-1])) and nblocks >= 2:
                    res.nontrivial = True
                    res.tag("skip-before-read")
                if g == "part":
                    res.tag("part-subset")
                # incomplete component sets stay scalars
                fullvec, _ = iom.vector_families(all_names, spec["ndim"])
                for vname, fam in fullvec.items():
                    have = [f for f in fam if f in names]
                    if 0 < len(have) < len(fam):
                        res.tag("incomplete-components")
            got_keys = set(sub[g].keys())
            res.count("excluded-absent")
            if got_keys != exp_keys:
                extra, missing = sorted(got_keys - exp_keys), sorted(exp_keys - got_keys)
                mech = "excluded-variable-present" if extra and not missing else (
                    "requested-variable-missing" if missing and not extra else "keys-differ")
                res.violate(mech, f"group {g!r} with select={select}: unexpected keys {extra}, missing keys {missing}",
                            spec=iom.spec_brief(spec))
                continue
            res.count("vector-naming")
            for key in sorted(exp_keys):
                res.count("projection-equal")
                if key not in full[g].keys():
                    # a component that stays scalar because its family is incomplete: compare with the
                    # component of the full load's vector
                    src = None
                    fullvec, _ = iom.vector_families(gv[g], spec["ndim"])
                    for vname, fam in fullvec.items():
                        if key in fam and vname in full[g].keys():
                            src = getattr(full[g][vname], "xyz"[fam.index(key)])
                    if src is None:
                        res.violate("key-not-in-full-load", f"group {g!r}: key {key!r} does not exist in the full load",
                                    spec=iom.spec_brief(spec))
                        continue
                    msg = same_member(sub[g][key], src)
                else:
                    msg = same_member(sub[g][key], full[g][key])
                if msg:
                    res.violate("projection-differs", f"group {g!r} variable {key!r} with select={select}: {msg}",
                                spec=iom.spec_brief(spec))
    finally:
        shutil.rmtree(path, ignore_errors=True)
