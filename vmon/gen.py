"""Seed-driven generators of values, shapes, dtypes and unit assignments."""
import numpy as np

from .unitsref import FAMILIES, FAMILY_NAMES

DTYPES = ["float64", "float32", "int64", "int32"]


def draw_dtype(rng, p64=0.4):
    if rng.random() < p64:
        return "float64"
    return DTYPES[int(rng.integers(0, len(DTYPES)))]


def draw_shape(rng, allow0d=True):
    r = rng.random()
    if allow0d and r < 0.12:
        return ()
    if r < 0.22:
        return (1,)
    if r < 0.75:
        return (int(rng.integers(2, 9)),)
    return (int(rng.integers(1, 5)), int(rng.integers(1, 5)))


def broadcast_partner(rng, shape):
    """A shape that broadcasts with `shape` (possibly equal)."""
    r = rng.random()
    if r < 0.5 or shape == ():
        return shape if rng.random() < 0.8 else ()
    if r < 0.65:
        return ()
    if len(shape) == 2:
        return [(shape[1],), (shape[0], 1), (1, shape[1]), (1, 1)][int(rng.integers(0, 4))]
    return [(1,), (int(rng.integers(1, 4)), shape[0])][int(rng.integers(0, 2))]


def draw_values(rng, shape, dtype, positive=False, small=False, nonzero=False):
    dt = np.dtype(dtype)
    n = int(np.prod(shape)) if shape else 1
    if dt.kind in "iu":
        hi = 30 if small else 1000
        v = rng.integers(1 if positive else -hi, hi + 1, size=n)
        if nonzero:
            v = np.where(v == 0, 7, v)
        return v.astype(dt).reshape(shape)
    expo = rng.uniform(-1 if small else -3, 2 if small else 6, size=n)
    v = 10.0 ** expo
    if not positive:
        v *= rng.choice([-1.0, 1.0], size=n)
        if not nonzero:
            v[rng.random(n) < 0.05] = 0.0
    # make most values short decimal numbers so that printed witnesses are readable
    v = np.array([float(f"{x:.4g}") for x in v])
    return v.astype(dt).reshape(shape)


def draw_family(rng, exclude=()):
    fams = [f for f in FAMILY_NAMES if f not in exclude]
    return fams[int(rng.integers(0, len(fams)))]


def draw_unit(rng, family):
    lst = FAMILIES[family]
    return lst[int(rng.integers(0, len(lst)))]


def draw_unit_pair(rng, mode=None):
    """-> (family1, unit1, family2, unit2, relation) relation in same|compatible|incompatible."""
    if mode is None:
        r = rng.random()
        mode = "same" if r < 0.2 else ("compatible" if r < 0.75 else "incompatible")
    f1 = draw_family(rng)
    u1 = draw_unit(rng, f1)
    if mode == "same":
        return f1, u1, f1, u1, "same"
    if mode == "compatible":
        lst = [u for u in FAMILIES[f1] if u != u1]
        if not lst:
            return f1, u1, f1, u1, "same"       # single-member family
        u2 = lst[int(rng.integers(0, len(lst)))]
        if {u1, u2} <= {"", "dimensionless"}:
            return f1, u1, f1, u2, "same"       # two spellings of "no unit"
        return f1, u1, f1, u2, "compatible"
    # pressure and energy density are the same family spelled twice in FAMILIES? no:
    # families are dimensionally distinct by construction
    f2 = draw_family(rng, exclude=(f1,))
    return f1, u1, f2, draw_unit(rng, f2), "incompatible"


def float32_safe(osy, dtypes, units):
    """False if float32 data in these units could over/underflow when converted between them
    (scale ratios beyond 1e+-8: products of two such numbers stay far inside float32's 1e+-38): such cases are run in float64 instead."""
    from .unitsref import scale_dims
    if not any(str(d) == "float32" for d in dtypes):
        return True
    scales = [scale_dims(osy.units(u))[0] for u in units if u is not None]
    return (max(scales) / min(scales)) < 1e8 if scales else True
