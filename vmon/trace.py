"""E-TRACE: mechanism checkpoints.

sys.monitoring (tool id COVERAGE, LINE events, DISABLE after the first hit, restricted to files of the tree
under observation) records which source lines of osyris the workload executed.  A property declares its
mechanism checkpoints as (file, regular expression on the source line) pairs, resolved against the tree at run
time; the evidence lists reached / not reached / unresolved checkpoints, and a checkpoint listed as mandatory
that was not reached makes the run inconclusive (never 'held').
"""
import os
import re
import sys

_hits = set()
_branches = set()
_root = None
_on = False


def start(root):
    global _root, _on
    if _on or not hasattr(sys, "monitoring"):
        return False
    _root = os.path.join(os.path.realpath(root), "osyris") + os.sep
    mon = sys.monitoring
    try:
        mon.use_tool_id(mon.COVERAGE_ID, "vmon-trace")
    except ValueError:
        return False

    def on_line(code, line):
        fn = code.co_filename
        if fn.startswith(_root):
            _hits.add((fn[len(_root):], line))
        return mon.DISABLE

    mon.register_callback(mon.COVERAGE_ID, mon.events.LINE, on_line)
    events = mon.events.LINE
    if os.environ.get("VMON_BRANCHES"):
        # both outcomes of every conditional jump (tools/coverage.py --branches): a location of the tree under
        # observation is never disabled, so that the second outcome is still seen
        def on_branch(code, src, dst):
            fn = code.co_filename
            if not fn.startswith(_root):
                return mon.DISABLE
            _branches.add((code, src, dst))
            return None

        mon.register_callback(mon.COVERAGE_ID, mon.events.BRANCH, on_branch)
        events |= mon.events.BRANCH
    mon.set_events(mon.COVERAGE_ID, events)
    _on = True
    return True


def stop():
    global _on
    if _on:
        sys.monitoring.set_events(sys.monitoring.COVERAGE_ID, 0)
        sys.monitoring.free_tool_id(sys.monitoring.COVERAGE_ID)
        _on = False


def report(checkpoints):
    """checkpoints: list of (name, relative file, regex[, occurrence offset]).  A checkpoint is 'reached' if any
    source line of that file matching the regex (shifted by `offset` lines, to address the body of a branch)
    was executed."""
    out = {"reached": [], "not_reached": [], "unresolved": []}
    by_file = {}
    for f, ln in _hits:
        by_file.setdefault(f, set()).add(ln)
    for cp in checkpoints:
        name, rel, pat = cp[0], cp[1], cp[2]
        off = cp[3] if len(cp) > 3 else 0
        path = os.path.join(_root or "", rel)
        try:
            src = open(path).read().splitlines()
        except OSError:
            out["unresolved"].append(name)
            continue
        lines = [i + 1 + off for i, text in enumerate(src) if re.search(pat, text)]
        if not lines:
            out["unresolved"].append(name)
        elif any(ln in by_file.get(rel, ()) for ln in lines):
            out["reached"].append(name)
        else:
            out["not_reached"].append(name)
    out["lines_executed"] = {f: len(v) for f, v in sorted(by_file.items())}
    return out


def dump(path):
    """all executed (file, line) pairs of this process -> JSON (tools/coverage.py merges them)"""
    import json
    by_file = {}
    for f, ln in _hits:
        by_file.setdefault(f, []).append(ln)
    out = {f: sorted(v) for f, v in by_file.items()}
    if _branches:
        import dis
        starts = {}
        br = {}
        for code, src, dst in _branches:
            if code not in starts:
                ls = sorted((off, ln) for off, ln in dis.findlinestarts(code) if ln is not None)
                starts[code] = ls

            def line_of(off, ls=starts[code]):
                cur = None
                for o, ln in ls:
                    if o > off:
                        break
                    cur = ln
                return cur
            rel = code.co_filename[len(_root):]
            br.setdefault(rel, {}).setdefault(str(line_of(src)), set()).add(f"{src}->{dst}@{line_of(dst)}")
        out["__branches__"] = {rel: {ln: sorted(v) for ln, v in d.items()} for rel, d in br.items()}
    with open(path, "w") as fh:
        json.dump(out, fh)
