"""Driver: ./check Cnn --tier quick|thorough [--seed N] | --replay <path>

Fans the property's cases out to worker subprocesses (fresh $HOME, scratch
directory, watchdog), merges what the monitors observed, matches violations
against /verif/KNOWN_FINDINGS.txt by mechanism key, writes
/verif/evidence/<id>.json and exits 0 (held) / 1 (violated) / 2 (inconclusive).
"""
import argparse
import importlib
import json
import os
import shutil
import subprocess
import sys
import tempfile
import time

from . import boot

EVID = os.path.join(boot.VERIF, "evidence")
KNOWN = os.path.join(boot.VERIF, "KNOWN_FINDINGS.txt")


def parse_known(prop):
    """-> {key: text} of open findings for this property."""
    found = {}
    if not os.path.exists(KNOWN):
        return found
    with open(KNOWN) as f:
        for line in f:
            line = line.strip()
            if not line.startswith("finding:"):
                continue
            fields = line[len("finding:"):].split()
            kv = dict(x.split("=", 1) for x in fields[:2] if "=" in x)
            if kv.get("property") == prop and "key" in kv:
                found[kv["key"]] = " ".join(fields[2:])
    return found


def read_jsonl(path):
    recs = []
    if not os.path.exists(path):
        return recs
    with open(path) as f:
        for line in f:
            line = line.strip()
            if line:
                try:
                    recs.append(json.loads(line))
                except json.JSONDecodeError:
                    recs.append({"torn": line[:200]})
    return recs


def launch(prop, tier, seed, shard, nshards, scratch, extra_env=None, replay=None, only=None):
    home = tempfile.mkdtemp(prefix=f"home{shard}-", dir=scratch)
    work = tempfile.mkdtemp(prefix=f"work{shard}-", dir=scratch)
    out = os.path.join(scratch, f"out-{shard}-{int(time.time() * 1e6) % 10**9}.jsonl")
    cmd = [
        boot.PYTHON, "-B", "-X", "faulthandler", "-m", "vmon.worker",
        "--prop", prop, "--tier", tier, "--seed", str(seed),
        "--shard", str(shard), "--nshards", str(nshards), "--out", out, "--work", work,
    ]
    if replay:
        cmd += ["--replay", replay]
    if only:
        cmd += ["--only", ",".join(only)]
    log = open(os.path.join(scratch, f"log-{shard}.txt"), "ab")
    p = subprocess.Popen(
        cmd, cwd=boot.VERIF, env=boot.worker_env(home, extra_env),
        stdout=log, stderr=subprocess.STDOUT, stdin=subprocess.DEVNULL,
    )
    return {"proc": p, "out": out, "log": log.name, "shard": shard, "home": home, "work": work,
            "env": extra_env or {}, "t0": time.time()}


def wait_all(workers, timeout):
    deadline = time.time() + timeout
    for w in workers:
        left = max(1.0, deadline - time.time())
        try:
            w["rc"] = w["proc"].wait(timeout=left)
            w["timed_out"] = False
        except subprocess.TimeoutExpired:
            w["proc"].kill()
            w["proc"].wait()
            w["rc"] = None
            w["timed_out"] = True
        w["wall_s"] = time.time() - w["t0"]


def tail(path, n=30):
    try:
        with open(path, "rb") as f:
            return b"\n".join(f.read().splitlines()[-n:]).decode("utf8", "replace")
    except OSError:
        return ""


def main(argv=None):
    ap = argparse.ArgumentParser(prog="check")
    ap.add_argument("prop")
    ap.add_argument("--tier", default=os.environ.get("VERIF_TIER", "quick"),
                    choices=["quick", "thorough"])
    ap.add_argument("--seed", type=int, default=int(os.environ.get("VERIF_SEED", "0")))
    ap.add_argument("--replay")
    ap.add_argument("--jobs", type=int, default=int(os.environ.get("VERIF_JOBS", "16")))
    ap.add_argument("--no-evidence", action="store_true",
                    help="do not rewrite evidence/<id>.json (used by the self-check)")
    a = ap.parse_args(argv)
    prop = a.prop.upper()
    t0 = time.time()

    boot.ensure_deps()
    mod = importlib.import_module("vmon.props." + prop.lower())
    plan = mod.plan(a.tier)
    nshards = max(1, min(a.jobs, plan.get("shards", 16)))
    timeout = plan.get("timeout", 900 if a.tier == "quick" else 6 * 3600)
    shard_env = plan.get("shard_env")  # optional: function shard -> env dict

    scratch = tempfile.mkdtemp(prefix=f"vmon-{prop}-")
    try:
        return _run(a, prop, mod, plan, nshards, timeout, shard_env, scratch, t0)
    finally:
        shutil.rmtree(scratch, ignore_errors=True)


def _run(a, prop, mod, plan, nshards, timeout, shard_env, scratch, t0):
    if a.replay:
        w = launch(prop, a.tier, a.seed, 0, 1, scratch,
                   extra_env=_replay_env(a.replay), replay=os.path.abspath(a.replay))
        wait_all([w], timeout)
        recs = read_jsonl(w["out"])
        viol = [r for r in recs if r.get("violations")]
        known = parse_known(prop)
        for r in recs:
            if "id" in r:
                print(json.dumps({k: r[k] for k in ("id", "violations", "monitors", "inconclusive")
                                  if k in r}, indent=1)[:6000])
        if not any(r.get("done") for r in recs):
            print(f"INCONCLUSIVE property={prop} reason=replay worker did not finish")
            print(tail(w["log"]))
            return 2
        new = [v for r in viol for v in r["violations"] if v["mech"] not in known]
        if new:
            print(f"VIOLATION property={prop} replay={os.path.abspath(a.replay)}")
            return 1
        for r in viol:
            for v in r["violations"]:
                print(f"KNOWN-FINDING: property={prop} key={v['mech']} {known[v['mech']]}")
        print(f"replay: no new violation for property={prop}")
        return 0

    workers = []
    for s in range(nshards):
        env = shard_env(s, nshards, a.tier) if shard_env else None
        workers.append(launch(prop, a.tier, a.seed, s, nshards, scratch, extra_env=env))
    wait_all(workers, timeout)

    results, inconclusive, extras = [], [], []
    for w in workers:
        recs = read_jsonl(w["out"])
        done = [r for r in recs if r.get("done")]
        fatal = [r for r in recs if "fatal" in r]
        res = [r for r in recs if "id" in r]
        results += res
        if fatal:
            inconclusive.append(f"shard {w['shard']}: worker failed to start: {fatal[0]['fatal'][-400:]}")
            continue
        if done:
            extras.append(done[0].get("extra") or {})
            continue
        # the worker died or timed out: find the case it was in
        finished = {r["id"] for r in res}
        begun = [r["begin"] for r in recs if "begin" in r]
        pending = [b for b in begun if b not in finished]
        if w["timed_out"]:
            inconclusive.append(
                f"shard {w['shard']}: watchdog ({int(timeout)} s) fired in case {pending[-1:] or '?'}")
            continue
        if pending:
            # crash inside a case: reproduce it alone in a fresh process
            w2 = launch(prop, a.tier, a.seed, w["shard"], nshards, scratch,
                        extra_env=w["env"], only=pending[-1:])
            wait_all([w2], min(timeout, 900))
            recs2 = read_jsonl(w2["out"])
            if any(r.get("done") for r in recs2):
                results += [r for r in recs2 if "id" in r]
                inconclusive.append(
                    f"shard {w['shard']}: worker died (rc={w['rc']}) in case {pending[-1]}, "
                    "not reproduced on replay; rest of shard not executed")
            else:
                results.append({
                    "id": pending[-1], "case": {"id": pending[-1], "crash_only": True},
                    "digest": "crash-" + pending[-1], "nontrivial": False, "monitors": {},
                    "inconclusive": [], "tags": [], "sample": None,
                    "violations": [{"mech": "crash", "msg": f"process died twice (rc={w['rc']}, {w2['rc']})",
                                    "detail": {"log": tail(w2["log"], 40)}}],
                })
        else:
            inconclusive.append(f"shard {w['shard']}: worker exited rc={w['rc']} before any case: "
                                + tail(w["log"], 8)[-400:])

    return _verdict(a, prop, mod, plan, results, inconclusive, extras, workers, t0)


def _pick_samples(samples, trivial):
    """one sample per kind of case (id prefix: fixed corpus, random, schedule, history ...), then fill up"""
    out, seen = [], set()
    for kind, smp in samples + trivial:
        if kind not in seen and len(out) < 8:
            seen.add(kind)
            out.append({"case_kind": kind, **smp} if isinstance(smp, dict) else smp)
    for kind, smp in samples:
        if len(out) >= 6:
            break
        cand = {"case_kind": kind, **smp} if isinstance(smp, dict) else smp
        if cand not in out:
            out.append(cand)
    return out or [s for _, s in trivial[:3]]


def _replay_env(path):
    try:
        with open(path) as f:
            return json.load(f).get("env") or None
    except Exception:  # noqa: BLE001
        return None


def _verdict(a, prop, mod, plan, results, inconclusive, extras, workers, t0):
    known = parse_known(prop)
    monitors, tags = {}, {}
    nontrivial = set()
    samples, trivial_samples = [], []
    viol_new, viol_known = [], {}
    for r in results:
        for k, v in r.get("monitors", {}).items():
            monitors[k] = monitors.get(k, 0) + v
        for t in r.get("tags", []):
            tags[t] = tags.get(t, 0) + 1
        if r.get("nontrivial"):
            nontrivial.add(r["digest"])
        if r.get("sample") is not None:
            import re as _re
            kind = _re.match(r"[A-Za-z_-]*", str(r.get("id", ""))).group(0)
            (samples if r.get("nontrivial") else trivial_samples).append((kind, r["sample"]))
        if r.get("harness_error"):
            inconclusive.append(f"case {r['id']}: harness error: {r['harness_error'][-500:]}")
        for why in r.get("inconclusive", []):
            tags["inconclusive:" + why.split(":")[0]] = tags.get("inconclusive:" + why.split(":")[0], 0) + 1
        if r.get("violations"):
            mechs = {v["mech"] for v in r["violations"]}
            if mechs <= set(known):
                for m in mechs:
                    viol_known.setdefault(m, []).append(r)
            else:
                viol_new.append(r)

    # mandatory monitors / tags: never reached => inconclusive, not held
    for m in plan.get("required_monitors", []):
        if monitors.get(m, 0) == 0:
            inconclusive.append(f"deciding monitor '{m}' was evaluated 0 times")
    for t in plan.get("required_tags", []):
        if tags.get(t, 0) == 0:
            inconclusive.append(f"mechanism checkpoint '{t}' was never reached")
    if len(nontrivial) < 2:
        inconclusive.append(f"only {len(nontrivial)} distinct non-trivial cases")

    merged_extra = {}
    # mechanism checkpoints (E-TRACE): reached in any worker counts as reached
    traces = [e.pop("trace") for e in extras if isinstance(e.get("trace"), dict)]
    if traces:
        reached = set().union(*[set(t["reached"]) for t in traces])
        named = set().union(*[set(t["reached"]) | set(t["not_reached"]) for t in traces])
        unresolved = set().union(*[set(t["unresolved"]) for t in traces])
        lines = {}
        for t in traces:
            for f, c in t.get("lines_executed", {}).items():
                lines[f] = max(lines.get(f, 0), c)
        merged_extra["mechanism_checkpoints"] = {
            "reached": sorted(reached), "not_reached": sorted(named - reached), "unresolved": sorted(unresolved),
            "osyris_lines_executed_per_file(max over workers)": lines}
        from .checkpoints import FOR
        for name in getattr(mod, "MANDATORY_CHECKPOINTS", [c[0] for c in FOR.get(prop, [])]):
            if name in unresolved:
                continue      # the code was refactored: reported, not judged
            if name not in reached:
                inconclusive.append(f"mechanism checkpoint '{name}' was never executed by the workload")
    for e in extras:
        for k, v in e.items():
            if isinstance(v, (int, float)) and not isinstance(v, bool):
                merged_extra[k] = merged_extra.get(k, 0) + v
            elif isinstance(v, dict):
                d = merged_extra.setdefault(k, {})
                for kk, vv in v.items():
                    if isinstance(vv, (int, float)) and not isinstance(vv, bool):
                        d[kk] = d.get(kk, 0) + vv
                    else:
                        d[kk] = vv
            elif isinstance(v, list):
                merged_extra[k] = sorted(set(merged_extra.get(k, [])) | set(map(str, v)))
            else:
                merged_extra[k] = v

    # replay files for new violations: one witness per mechanism first, then the rest
    replays = []
    if viol_new:
        seen, first, rest = set(), [], []
        for r in viol_new:
            ms = [v["mech"] for v in r["violations"] if v["mech"] not in known]
            if ms and ms[0] not in seen:
                seen.add(ms[0])
                first.append(r)
            else:
                rest.append(r)
        viol_new = first + rest
        rdir = os.path.join(EVID, "replays", prop)
        os.makedirs(rdir, exist_ok=True)
        for r in viol_new[:12]:
            path = os.path.join(rdir, r["digest"] + ".json")
            with open(path, "w") as f:
                json.dump({
                    "property": prop, "tier": a.tier, "seed": a.seed, "case": r["case"],
                    "violations": r["violations"], "tree": boot.tree_info(),
                    "replay_cmd": f"./check {prop} --replay {path}",
                }, f, indent=1)
            replays.append(path)

    wall = time.time() - t0
    evidence = {
        "property_id": prop,
        "tier": a.tier,
        "seed": a.seed,
        "level": "exploration",
        "coverage": {
            "evaluations": len(results),
            "distinct_nontrivial": len(nontrivial),
            "rule": mod.RULE,
            "samples": _pick_samples(samples, trivial_samples),
            "monitor_evaluations": dict(sorted(monitors.items())),
            "observed_tags": dict(sorted(tags.items())),
            "known_findings_observed": {
                k: {"cases": len(v), "text": known[k],
                    "witness": {"case": v[0]["case"], "violation": v[0]["violations"][0]}}
                for k, v in sorted(viol_known.items())},
            "workers": [{"shard": w["shard"], "rc": w["rc"], "wall_s": round(w["wall_s"], 1),
                         "env": w["env"]} for w in workers],
            "tree": boot.tree_info(),
            "extra": merged_extra,
            "inconclusive_reasons": inconclusive[:20],
            "exhaustive": False,
        },
        "assumptions": list(getattr(mod, "ASSUMPTIONS", [])),
        "wall_s": round(wall, 2),
        "violations": len(viol_new),
    }
    if not a.no_evidence:
        os.makedirs(EVID, exist_ok=True)
        tmp = os.path.join(EVID, f".{prop}.json.tmp")
        with open(tmp, "w") as f:
            json.dump(evidence, f, indent=1, sort_keys=False)
        os.replace(tmp, os.path.join(EVID, f"{prop}.json"))

    print(f"[{prop}] tier={a.tier} seed={a.seed} cases={len(results)} "
          f"nontrivial={len(nontrivial)} wall={wall:.1f}s monitors={dict(sorted(monitors.items()))}")
    for k, text in sorted(known.items()):
        print(f"KNOWN-FINDING: property={prop} key={k} {text} (observed in {len(viol_known.get(k, []))} cases)")
    if viol_new:
        bymech = {}
        for r in viol_new:
            for v in r["violations"]:
                bymech[v["mech"]] = bymech.get(v["mech"], 0) + 1
        print(f"  violations by mechanism: {bymech}")
        for r, path in zip(viol_new, replays):
            v = [x for x in r["violations"] if x["mech"] not in known][0]
            print(f"  witness {r['id']}: [{v['mech']}] {v['msg'][:300]}")
        print(f"  ({len(viol_new)} violating cases in total)")
        for path in replays[:5]:
            print(f"VIOLATION property={prop} replay={path}")
        return 1
    if inconclusive:
        for why in inconclusive[:8]:
            print(f"INCONCLUSIVE property={prop} reason={why[:700]}")
        return 2
    print(f"HELD property={prop} on {len(results)} executions ({len(nontrivial)} distinct non-trivial)")
    return 0


if __name__ == "__main__":
    sys.exit(main())
