"""E-CONTRACT: icontract pre/post-conditions applied from the harness to the real osyris classes.

The conditions never raise: they record what they see (evaluation counters + violations) and return True, so
that the workload they observe is not disturbed (DESIGN.md 3.8).  They are used
  * over the repository's own test suite (a second, free workload): `run_repo_tests()` starts pytest in a
    subprocess with the plugin vmon.pytest_contracts, which calls install() and dumps the record;
  * inside worker processes (install() can be called from a property module's setup()).
"""
import json
import os
import subprocess
import sys
import tempfile

import numpy as np

from . import boot

COUNTS = {}
VIOLATIONS = []


def _count(name):
    COUNTS[name] = COUNTS.get(name, 0) + 1


def _bad(name, msg):
    if len(VIOLATIONS) < 50:
        VIOLATIONS.append({"contract": name, "msg": msg[:400]})


def install(osy):
    """decorate osyris' classes in place (idempotent)"""
    if getattr(osy, "_vmon_contracts", False):
        return
    osy._vmon_contracts = True
    sys.path.append(boot.DEPS)
    import icontract
    from .snapshot import fp
    from .unitsref import Q, compare_quantity, rtol_for
    Array, Datagroup, Dataset = osy.Array, osy.Datagroup, osy.Dataset

    # --- Array.to: source untouched, result denotes the same quantity (C08)
    def snap_self(self):
        return fp(self), np.array(self._array, copy=True), self.unit

    def to_post(self, unit, result, OLD):
        _count("Array.to")
        before_fp, vals, u = OLD.s
        if fp(self) != before_fp:
            _bad("Array.to", f"a.to({unit!r}) modified a")
        try:
            msg = compare_quantity(result.values, result.unit, Q.of(vals, u), 4 * rtol_for(vals.dtype))
        except Exception as e:  # noqa: BLE001
            msg = f"result not comparable: {e}"
        if msg and vals.dtype.kind == "f":
            _bad("Array.to", f"a.to({unit!r}) does not denote the same quantity: {msg}")
        return True
    Array.to = icontract.snapshot(snap_self, name="s")(icontract.ensure(to_post)(Array.to))

    # --- in-place operators return the very same Array (C17)
    for dunder in ("__iadd__", "__isub__", "__imul__", "__itruediv__"):
        def ident(self, other, result, _d=dunder):
            _count("Array." + _d)
            if result is not self:
                _bad("Array." + _d, "in-place operator returned another object")
            return True
        setattr(Array, dunder, icontract.ensure(ident)(getattr(Array, dunder)))

    # --- copies are independent (C17)
    def copy_post(self, result):
        _count("Array.copy")
        if result is self or (self._array.size and np.shares_memory(result._array, self._array)):
            _bad("Array.copy", "copy shares its buffer with the source")
        return True
    Array.copy = icontract.ensure(copy_post)(Array.copy)

    # --- Datagroup.__setitem__: accepted members are aligned and renamed (C06, C20)
    def dg_set_post(self, key, value):
        _count("Datagroup.__setitem__")
        if key not in self._container or self._container[key] is not value:
            _bad("Datagroup.__setitem__", f"accepted value not stored under {key!r}")
        elif getattr(value, "name", None) != key:
            _bad("Datagroup.__setitem__", f"stored item is named {getattr(value, 'name', None)!r}, key {key!r}")
        first = next(iter(self._container.values()))
        if first.shape != () and value.shape != first.shape:
            _bad("Datagroup.__setitem__", f"accepted a member of shape {value.shape} into a group of shape {first.shape}")
        return True
    Datagroup.__setitem__ = icontract.ensure(dg_set_post)(Datagroup.__setitem__)

    # --- Dataset.__setitem__: only Datagroups, renamed to their key (C20)
    def ds_set_post(self, key, value):
        _count("Dataset.__setitem__")
        if type(value).__name__ != "Datagroup" or value.name != key or self.groups.get(key) is not value:
            _bad("Dataset.__setitem__", f"stored {type(value).__name__} named {getattr(value, 'name', None)!r} under {key!r}")
        return True
    Dataset.__setitem__ = icontract.ensure(ds_set_post)(Dataset.__setitem__)

    # --- Datagroup indexing with a non-string key keeps keys and aligns members (C06)
    def dg_get_post(self, key, result):
        if isinstance(key, str):
            return True
        _count("Datagroup.__getitem__[index]")
        if list(result.keys()) != list(self.keys()):
            _bad("Datagroup.__getitem__", "indexed group lost or reordered members")
        shapes = {v.shape for v in result.values()}
        if len(shapes) > 1:
            _bad("Datagroup.__getitem__", f"members of the indexed group have shapes {shapes}")
        return True
    Datagroup.__getitem__ = icontract.ensure(dg_get_post)(Datagroup.__getitem__)


def dump(path):
    with open(path, "w") as f:
        json.dump({"counts": COUNTS, "violations": VIOLATIONS}, f)


def run_repo_tests(files, work):
    """Run the repository's own tests (given file names under <repo>/test) under the contracts.
    -> dict(counts, violations, pytest_exit, summary)"""
    repo = os.path.dirname(boot.src_root())
    tests = [os.path.join(repo, "test", f) for f in files]
    tests = [t for t in tests if os.path.exists(t)]
    if not tests:
        return {"counts": {}, "violations": [], "pytest_exit": None, "summary": "repository tests not found"}
    home = tempfile.mkdtemp(prefix="ctrhome-", dir=work)
    out = os.path.join(home, "contracts.json")
    env = boot.worker_env(home, {"VMON_CONTRACT_OUT": out})
    r = subprocess.run([boot.PYTHON, "-B", "-m", "pytest", "-q", "-p", "no:cacheprovider", "-p", "vmon.pytest_contracts",
                        "--timeout=900"] + tests, cwd=home, env=env, capture_output=True, text=True, timeout=1800)
    rec = {"counts": {}, "violations": []}
    if os.path.exists(out):
        with open(out) as f:
            rec = json.load(f)
    rec["pytest_exit"] = r.returncode
    rec["summary"] = (r.stdout.strip().splitlines() or [""])[-1][-200:]
    return rec


def judge_repo_tests(res, ctx, files, contracts_of_interest):
    """one monitored case: the repository's own tests under the contracts"""
    rec = run_repo_tests(files, ctx.work)
    res.nontrivial = True
    res.digest_src = {"contracts": files}
    n = sum(v for k, v in rec["counts"].items() if any(k.startswith(c) for c in contracts_of_interest))
    res.count("contract-evaluations(repo tests)", n)
    res.sample = {"repository_tests": files, "pytest": rec["summary"], "contract_evaluations": rec["counts"]}
    if rec["pytest_exit"] not in (0, None):
        res.tag("repo-tests-failing-under-contracts")
    for v in rec["violations"]:
        if any(v["contract"].startswith(c) for c in contracts_of_interest):
            res.violate("contract:" + v["contract"], "while running the repository's own tests: " + v["msg"])
    if n == 0:
        res.inconclusive.append("contracts: zero evaluations over the repository tests")
