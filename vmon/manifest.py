"""Regenerates /verif/MANIFEST.json from the table below:  /venv/bin/python -m vmon.manifest"""
import json
import os

from . import boot

BASELINE_OFF = ("cd /repo && /venv/bin/python -m pytest -ra -q -p no:cacheprovider --timeout=900 "
                "--continue-on-collection-errors")

LEVEL_TEXT = (
    "Runtime monitoring: the real osyris code is executed on generated and hand-enumerated hostile inputs "
    "while an oracle written for this property observes every execution.  'Held' means held on the executions "
    "counted in the evidence file (evaluations / distinct_nontrivial / monitor_evaluations), nothing more.  "
    "Mechanism checkpoints (sys.monitoring line events on the osyris sources) are mandatory: a run that never "
    "executed one of the property's mechanisms, or whose deciding monitor was evaluated zero times, is "
    "inconclusive (exit 2), not held."
)

# property -> (technique, design_ref, level_note, extra sentence for the level text)
CHECKS = {
    "C03": ("brute-force point-location oracle at origin + x_i*u + y_j*v (basis and kernel arguments captured by "
            "wrapping module attributes of the real map()), cells carry unique tags; schedule exploration of the "
            "parallel kernel (threads x chunk sizes x threading layers x CPU affinity) against a bounds-checked "
            "sequential rebuild of the same source; shadow-memory iteration-conflict monitor; emulated parallel runtime "
            "(prange iterations on Python threads with yield injection at shared-array accesses)",
            "DESIGN.md 3.4, 3.5, 4/C03, 9.4b",
            "face tolerance 1e-9 of the cell size (face pixels may show any touching cell); finite cell values; "
            "schedules are sampled, not enumerated"),
    "C05": ("exact binning model in extended precision on the grid observed at the kernel boundary (edge points "
            "within 16 ulp not judged), conservation of totals; schedule sweep of the kernel on maximal-sharing "
            "inputs with integer weights, bounds-checked sequential rebuild, iteration-conflict monitor, emulated parallel "
            "runtime with yield injection",
            "DESIGN.md 3.5, 4/C05, 9.4b",
            "schedules are sampled (omp and workqueue layers, 1-16 threads, affinity 16/2/1 cores), never enumerated"),
    "C11": ("point-location oracle applied to every depth sample of every pixel column; numpy's reduction of the "
            "column (NaN = missing) as value oracle; unit rule for sum/nansum; default depth resolution; schedule "
            "sweep and emulated parallel runtime of the 3-D sampling kernel",
            "DESIGN.md 3.4, 3.5, 4/C11, 9.4b",
            "dz >= one pixel; pixels whose column contains a face sample are not judged"),
    "C16": ("membership model on physical quantities with decisive margin + exact 3-4-5 boundary cases; row tags; "
            "fingerprints of the input dataset; datasets hand-built and from the real loader",
            "DESIGN.md 4/C16", "extract_box exercised on 3-D positions"),
    "C18": ("numeric invariant monitor on the real get_direction(): unit length, perpendicularity, n parallel to the "
            "request, u x v = n; angular-momentum oracle for 'top'/'side'",
            "DESIGN.md 4/C18", "tolerance 1e-10 (1e-5 for float32 normals); extreme magnitudes form their own class"),
    "C19": ("deep fingerprints of all argument objects around every plot call (also raising calls), second "
            "identical call compared with the first, and an exhaustive precedence lattice (option x "
            "neither/layer/call/both) observed in Plot.layers / data / Plot.x,y",
            "DESIGN.md 3.6, 4/C19", "string norms only; figures rendered with Agg and closed"),
    "C01": ("differential oracle against an explicit oct-forest model: synthetic RAMSES outputs with unique, "
            "decodable stored numbers (ghost copies negated) are written, loaded by the real loader and compared "
            "row-multiset-wise and variable by variable, units against an independent table; audit-hook log of "
            "opened files",
            "DESIGN.md 3.1, 3.3, 4/C01, appendix A",
            "trusted: the writer's reading of the RAMSES formats (validated against the unmodified reader), "
            "levelmax <= 7, little endian, no bisection ordering"),
    "C04": ("differential oracle (model leaves filtered by the same predicates) + audit-hook trace monitor "
            "'owner files of qualifying leaves were opened' + exhaustive structural monitor of the Hilbert key "
            "(independent port, bijection, continuity, prefix property) for bit lengths 1..5",
            "DESIGN.md 3.1, 3.3, 4/C04",
            "every box contains a finest-level centre per constrained axis (the property's precondition); "
            "thresholds kept off cell centres"),
    "C12": ("differential oracle: model tree truncated at the cap level (coarse cells carry their own unique "
            "stored numbers), volume conservation and point probes on the returned tiling",
            "DESIGN.md 4/C12", "full loads are judged by C01"),
    "C13": ("differential monitor: restricted load vs fresh full load, bit-exact per requested variable; "
            "independent vector-naming oracle; excluded keys absent",
            "DESIGN.md 4/C13", "full loads are judged by C01/C14"),
    "C14": ("reference-model oracle for particle columns (numbers encode cpu,row,column; d/i/b types; random "
            "header record sizes) and sink CSV columns (code-unit and legacy unit dialects parsed independently)",
            "DESIGN.md 4/C14", "single-column sink files excluded"),
    "C15": ("history driver whose executable model is a fresh RamsesDataset making only the call in question; "
            "all ordered pairs of the argument alphabet exhaustively, then random longer sequences; audit log "
            "of opened files as localiser",
            "DESIGN.md 3.6, 4/C15", "each call in isolation is judged by C01/C04/C12/C13/C14"),
    "C02": ("differential oracle on physical quantities (independent unit model) + before/after fingerprints of "
            "the operands, over generated operator/dtype/shape/unit combinations",
            "DESIGN.md 3.2, 4/C02",
            "trusted: pint's reduction of a unit to CGS base units, numpy arithmetic in longdouble; values within "
            "+-1e6; Quantity as left operand not decided"),
    "C06": ("history driver with row-tagged members and a numpy-indexing model; quiescent-point invariant "
            "(shape, names, units) after every step; members shared between groups; icontract post-conditions on the "
            "real Datagroup methods over the repository's own tests",
            "DESIGN.md 3.6, 3.8, 4/C06",
            "trusted: numpy fancy indexing on arange(n) as the model of an index object; sort ties may go either way"),
    "C07": ("differential oracle on physical quantities with a decisive-margin rule (near-ties created by "
            "conversion rounding are not judged); logical operators against numpy",
            "DESIGN.md 3.2, 4/C07",
            "trusted: pint's reduction to base units; margin 1e-6 (1e-3 with float32)"),
    "C08": ("exhaustive pair/triple conversion sweep against the quantity oracle, round trips and chains; "
            "live unit registry (fresh $HOME) against an independent reference table; user-config overrides "
            "in subprocesses",
            "DESIGN.md 3.2, 4/C08",
            "trusted: the reference table (IAU 2015 / CODATA values, rtol 5e-4), pint's standard units"),
    "C09": ("lifting oracle (the real Array operation per component, bit-exact) + quantity oracle and "
            "algebraic-law monitors for norm/dot/cross with operands in different units",
            "DESIGN.md 4/C09",
            "trusted: Array operations themselves are judged by C02/C07/C10"),
    "C10": ("catalogue sweep: numpy itself on raw numbers as value oracle, dimensional analysis as unit oracle, "
            "per function class rules; keyword forms axis=/keepdims=/out=",
            "DESIGN.md 4/C10",
            "the catalogue is fixed (functions whose unit rule the statement does not fix are outside); a plain "
            "number mixed into a unit-preserving function may raise or be read in the Array's unit"),
    "C17": ("history driver with an executable aliasing model (model entries per data object, references, "
            "views, copies); np.shares_memory relations and object identity checked after every step; icontract "
            "post-conditions (in-place identity, copy independence) over the repository's own tests",
            "DESIGN.md 3.6, 3.8, 4/C17",
            "Vector in-place operators may return a new wrapper; integer targets: raise-unchanged or exact"),
    "C20": ("history driver mirrored on a Python dict (complete observable state compared after every step) "
            "+ content-equality model on generated and fixed Datagroup pairs",
            "DESIGN.md 3.6, 4/C20",
            "scalar (0-d) groups are exempt from the shape gate as the statement says; incompatible members may "
            "raise or compare unequal"),
}

PENDING = {}


def build():
    props = []
    with open(os.path.join(boot.VERIF, "properties.jsonl")) as f:
        for line in f:
            if line.strip():
                props.append(json.loads(line))
    checks = []
    not_applicable = []
    for p in props:
        pid = p["id"]
        if pid in CHECKS and os.path.exists(os.path.join(boot.VERIF, "vmon", "props", pid.lower() + ".py")):
            tech, ref, note = CHECKS[pid]
            checks.append({
                "property_id": pid,
                "quick_cmd": f"./check {pid} --tier quick",
                "thorough_cmd": f"./check {pid} --tier thorough",
                "evidence_file": f"/verif/evidence/{pid}.json",
                "replay_cmd_template": f"./check {pid} --replay {{path}}",
                "engine": "vmon",
                "level_claimed": {"category": "exploration", "text": LEVEL_TEXT, "design_ref": ref},
                "level_note": note,
                "technique": "runtime monitoring: " + tech,
            })
        else:
            not_applicable.append({
                "property_id": pid,
                "reason": PENDING.get(pid, "monitor for this property is not built yet (work in progress); "
                                           "nothing is claimed"),
            })
    man = {
        "version": 1,
        "setup_cmd": "./setup.sh",
        "hooks": {
            "guard": "OSYRIS_VERIF",
            "enable": "harness-side switch: workers are started with OSYRIS_VERIF=1 and attach every monitor from "
                      "/verif (module attributes, class decoration, sys.addaudithook, numba py_func); no hook code "
                      "lives in /repo, so there is nothing to build with hooks on",
            "baseline_off_cmd": BASELINE_OFF,
            "source_commits": [],
            "add_only": True,
        },
        "engines": [
            {"name": "vmon", "path": "vmon/", "serves_properties": [c["property_id"] for c in checks],
             "kind_free_text": "driver + worker processes (fresh $HOME, scratch dirs, watchdogs), unit oracle, "
                               "fingerprints, history drivers, RAMSES synthesiser, mesh oracle, schedule sweeps"},
        ],
        "checks": checks,
        "notes": "All checks: ./check <id> --tier quick|thorough [--seed N]; exit 0 held / 1 violation / 2 "
                 "inconclusive.  VERIF_SEED and VERIF_TIER are honoured.  Known findings: KNOWN_FINDINGS.txt.",
        "not_applicable": not_applicable,
    }
    return man


if __name__ == "__main__":
    man = build()
    with open(os.path.join(boot.VERIF, "MANIFEST.json"), "w") as f:
        json.dump(man, f, indent=1)
    print(f"{len(man['checks'])} checks, {len(man['not_applicable'])} not claimed")
