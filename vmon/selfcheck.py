"""Validation of the monitors themselves (DESIGN.md section 5): a catalogue of small source mutations
("realistic changes") is applied, one at a time, to a scratch copy of /repo/src (never to /repo); for each
mutant the repository's own 192 tests must still pass, and the quick tier of the owning property's check
must report a violation.  Usage:

    /venv/bin/python -B -m vmon.selfcheck [--only C01,C04] [--name substr] [--skip-tests] [--jobs 4]

Writes /verif/evidence/selfcheck.json (the kill matrix; not part of the per-property evidence).
"""
import argparse
import concurrent.futures as cf
import json
import os
import shutil
import subprocess
import sys
import tempfile
import time

from . import boot
from .mutants import MUTANTS


def apply(src_root, m):
    p = os.path.join(src_root, "osyris", m["file"])
    s = open(p).read()
    if s.count(m["old"]) < 1:
        return f"pattern not found in {m['file']}: {m['old'][:60]!r}"
    s = s.replace(m["old"], m["new"], 1 if not m.get("all") else -1)
    for old, new in m.get("also", []):
        if old not in s:
            return f"secondary pattern not found in {m['file']}: {old[:60]!r}"
        s = s.replace(old, new, 1)
    open(p, "w").write(s)
    return None


def run_one(m, skip_tests, tier):
    t0 = time.time()
    scratch = tempfile.mkdtemp(prefix="vmon-mut-")
    out = {"name": m["name"], "props": m["props"], "file": m["file"]}
    try:
        src = os.path.join(scratch, "src")
        shutil.copytree(os.environ.get("SELFCHECK_SRC", "/repo/src"), src, ignore=shutil.ignore_patterns("__pycache__", "*.egg-info"))
        if m.get("patch"):
            # an independently seeded change (seeded/<id>/patch.diff), applied to the scratch copy of the current tree
            r = subprocess.run(["patch", "-p1", "-s", "-f", "-d", scratch, "-i", m["patch"]], capture_output=True, text=True)
            err = None if r.returncode == 0 else ("patch does not apply to the current tree: " + (r.stdout + r.stderr)[-200:])
        else:
            err = apply(src, m)
        if err:
            out["status"] = "stale"
            out["detail"] = err
            return out
        env = dict(os.environ, OSYRIS_SRC=src, PYTHONDONTWRITEBYTECODE="1")
        if not skip_tests:
            home = os.path.join(scratch, "home")
            os.makedirs(home)
            tenv = dict(env, HOME=home, PYTHONPATH=src, MPLBACKEND="Agg")
            r = subprocess.run([boot.PYTHON, "-B", "-m", "pytest", "-q", "-x", "-p", "no:cacheprovider",
                                "--timeout=900", os.path.join(os.path.dirname(os.environ.get("SELFCHECK_SRC", "/repo/src")), "test")], cwd=scratch, env=tenv, capture_output=True,
                               text=True, timeout=1800)
            out["tests_pass"] = r.returncode == 0
            if r.returncode != 0:
                out["status"] = "dropped-fails-own-tests"
                out["detail"] = r.stdout[-300:]
                return out
        res = {}
        for prop in m["props"]:
            r = subprocess.run([os.path.join(boot.VERIF, "check"), prop, "--tier", tier, "--no-evidence"],
                               cwd=boot.VERIF, env=env, capture_output=True, text=True, timeout=3600)
            mech = [ln.strip() for ln in r.stdout.splitlines() if "violations by mechanism" in ln]
            res[prop] = {"exit": r.returncode, "mechanisms": mech[0][-300:] if mech else "",
                         "tail": r.stdout.strip().splitlines()[-1][-200:] if r.stdout.strip() else r.stderr[-200:]}
        out["checks"] = res
        out["status"] = "killed" if any(v["exit"] == 1 for v in res.values()) else "SURVIVED"
        return out
    finally:
        out["wall_s"] = round(time.time() - t0, 1)
        shutil.rmtree(scratch, ignore_errors=True)


def main(argv=None):
    ap = argparse.ArgumentParser()
    ap.add_argument("--only")
    ap.add_argument("--name")
    ap.add_argument("--skip-tests", action="store_true")
    ap.add_argument("--jobs", type=int, default=2)
    ap.add_argument("--tier", default="quick")
    ap.add_argument("--seeds", action="store_true",
                    help="instead of the catalogue: every seeded/<id>/patch.diff against the check of its property "
                         "(writes evidence/seedcheck_regression.json)")
    a = ap.parse_args(argv)
    sel = MUTANTS
    if a.seeds:
        import glob
        sel = []
        for d in sorted(glob.glob(os.path.join(boot.VERIF, "seeded", "*"))):
            mp, pp = os.path.join(d, "meta.json"), os.path.join(d, "patch.diff")
            if os.path.basename(d).endswith("-neutralised"):
                continue      # kept for the record: no longer breaks the property on the repaired tree (DESIGN 9.10)
            if os.path.exists(mp) and os.path.exists(pp):
                meta = json.load(open(mp))
                sel.append({"name": "seed:" + os.path.basename(d), "props": [meta["property"]], "file": "patch.diff", "patch": pp})
    if a.only:
        want = set(a.only.split(","))
        sel = [m for m in sel if want & set(m["props"])]
    if a.name:
        sel = [m for m in sel if a.name in m["name"]]
    results = []
    with cf.ThreadPoolExecutor(max_workers=a.jobs) as ex:
        for r in ex.map(lambda m: run_one(m, a.skip_tests, a.tier), sel):
            results.append(r)
            chk = {p: (v["exit"], v["mechanisms"][-120:]) for p, v in r.get("checks", {}).items()}
            print(f"{r['status']:>24}  {r['name']:<48} {chk if chk else r.get('detail', '')}", flush=True)
    path = os.path.join(boot.VERIF, "evidence", "seedcheck_regression.json" if a.seeds else "selfcheck.json")
    prev = {}
    if os.path.exists(path):
        try:
            prev = {r["name"]: r for r in json.load(open(path))["mutants"]}
        except Exception:  # noqa: BLE001
            prev = {}
    for r in results:
        prev[r["name"]] = r
    allr = [prev[k] for k in sorted(prev)]
    summary = {}
    for r in allr:
        summary[r["status"]] = summary.get(r["status"], 0) + 1
    with open(path, "w") as f:
        json.dump({"tree": boot.tree_info(), "summary": summary, "mutants": allr}, f, indent=1)
    print(summary)
    return 0 if not any(r["status"] == "SURVIVED" for r in results) else 1


if __name__ == "__main__":
    sys.exit(main())
