"""E-SCHED: schedule exploration of the two numba kernels (plot/utils.py: evaluate_on_grid, hist2d).

Three instruments (DESIGN.md 3.5):
 1. stress sweep of the *shipped* (parallel) build: thread counts x chunk sizes x repetitions, per worker
    one threading layer (omp / workqueue) and one CPU-affinity class (all cores, 2 cores, 1 core: many
    runnable threads on few cores are pre-empted inside read-modify-write sequences); every result is
    compared bit for bit with a sequential oracle, and the number of distinct results per input is recorded;
 2. the same source re-jitted sequentially with bounds checking (an ASan-like build: an out-of-bounds index
    raises IndexError instead of corrupting memory), run on a hostile corpus; it is also the sequential
    reference of the current source;
 3. a shadow-memory iteration-conflict monitor on the pure-Python body (prange replaced by a generator that
    publishes the iteration, arrays allocated inside the body replaced by a logging ndarray subclass): two
    different prange iterations touching one element with at least one write is a hazard.  A hazard alone is
    never a violation (it is reported as witness / 'unconfirmed_hazard').
"""
import hashlib
import os
import types

import numpy as np

THREADS = [1, 2, 3, 4, 8, 16]
CHUNKS = [0, 1, 7, 64]


def shard_env(shard, nshards, tier):
    env = {"NUMBA_THREADING_LAYER": "omp" if shard % 2 == 0 else "workqueue", "NUMBA_NUM_THREADS": "16"}
    env["VMON_AFFINITY"] = ["all", "2", "1"][(shard // 2) % 3]
    env["VMON_SWEEP_BUDGET_S"] = "25" if tier == "quick" else "300"
    return env


_aff_done = False


def apply_affinity():
    global _aff_done
    if _aff_done:
        return os.environ.get("VMON_AFFINITY", "all")
    _aff_done = True
    a = os.environ.get("VMON_AFFINITY", "all")
    try:
        cpus = sorted(os.sched_getaffinity(0))
        if a == "2" and len(cpus) >= 2:
            os.sched_setaffinity(0, set(cpus[:2]))
        elif a == "1":
            os.sched_setaffinity(0, set(cpus[:1]))
    except (AttributeError, OSError):
        pass
    return a


def fingerprint(*arrays):
    h = hashlib.sha1()
    for a in arrays:
        a = np.ascontiguousarray(a)
        h.update(str(a.dtype).encode() + str(a.shape).encode() + a.tobytes())
    return h.hexdigest()[:16]


# ----------------------------------------------------------------------------- sequential bounds-checked rebuild
_rebuilt = {}


def boundscheck_build(dispatcher):
    from numba import njit
    key = id(dispatcher)
    if key not in _rebuilt:
        _rebuilt[key] = njit(parallel=False, boundscheck=True)(dispatcher.py_func)
    return _rebuilt[key]


# ----------------------------------------------------------------------------- conflict monitor
class _Log:
    def __init__(self):
        self.iter = None
        self.events = []       # (array id, flat element indices, iteration, 'r'|'w')
        self.in_prange = False
        self.prange_loops = 0


class _Shadow(np.ndarray):
    _log = None
    _aid = 0

    def _elems(self, key):
        idx = np.arange(self.size).reshape(self.shape)[key]
        return np.atleast_1d(idx).ravel()

    def __getitem__(self, key):
        log = _Shadow._log
        if log is not None and log.in_prange and type(self) is _Shadow and self.base is None:
            log.events.append((id(self), self._elems(key), log.iter, "r"))
        return np.asarray(self).__getitem__(key)

    def __setitem__(self, key, value):
        log = _Shadow._log
        if log is not None and log.in_prange and self.base is None:
            log.events.append((id(self), self._elems(key), log.iter, "w"))
        np.asarray(self).__setitem__(key, value)


def conflict_monitor(dispatcher, args, kwargs=None, max_events=400000):
    """Run the pure-Python body of a kernel with prange iterations made visible.
    -> dict(prange_loops, iterations, events, hazards: list of (element, iterations, kinds))"""
    py = dispatcher.py_func
    log = _Log()

    def prange_gen(*a):
        log.prange_loops += 1
        for i in range(*a):
            log.iter = i
            log.in_prange = True
            yield i
            if len(log.events) > max_events:
                break
        log.in_prange = False
        log.iter = None

    class NPShim:
        def __getattr__(self, name):
            return getattr(np, name)

        @staticmethod
        def zeros(*a, **k):
            return np.zeros(*a, **k).view(_Shadow)

        @staticmethod
        def full(*a, **k):
            return np.full(*a, **k).view(_Shadow)

        @staticmethod
        def empty(*a, **k):
            return np.empty(*a, **k).view(_Shadow)

    g = dict(py.__globals__)
    g["prange"] = prange_gen
    g["np"] = NPShim()
    fn = types.FunctionType(py.__code__, g, py.__name__, py.__defaults__, py.__closure__)
    _Shadow._log = log
    try:
        with np.errstate(all="ignore"):
            fn(*args, **(kwargs or {}))
    finally:
        _Shadow._log = None
    # Bernstein: same element, different iterations, at least one write
    touched = {}
    for aid, elems, it, kind in log.events:
        for e in elems.tolist():
            touched.setdefault((aid, e), []).append((it, kind))
    hazards = []
    for (aid, e), lst in touched.items():
        its = {i for i, k in lst}
        if len(its) > 1 and any(k == "w" for i, k in lst):
            rmw = sum(1 for i in its if {"r", "w"} <= {k for j, k in lst if j == i})
            hazards.append({"element": int(e), "iterations": sorted(its)[:6], "n_iterations": len(its),
                            "lost_update": rmw >= 2})
    return {"prange_loops": log.prange_loops, "events": len(log.events), "elements_touched": len(touched),
            "hazards": hazards}


# ----------------------------------------------------------------------------- emulated parallel runtime
def _reduction_names(py):
    """names that are augmented-assigned inside a prange loop but bound outside it (numba treats those as
    reductions; the emulation below cannot) -> set of names, or None if the source cannot be analysed"""
    import ast
    import inspect
    import textwrap
    try:
        tree = ast.parse(textwrap.dedent(inspect.getsource(py)))
    except (OSError, SyntaxError, TypeError):
        return None
    out = set()
    for node in ast.walk(tree):
        if isinstance(node, ast.For) and isinstance(node.iter, ast.Call) and getattr(node.iter.func, "id", "") == "prange":
            assigned = {t.id for n in ast.walk(node) if isinstance(n, ast.Assign) for t in n.targets if isinstance(t, ast.Name)}
            for n in ast.walk(node):
                if isinstance(n, ast.AugAssign) and isinstance(n.target, ast.Name) and n.target.id not in assigned:
                    out.add(n.target.id)
    return out


def emulated_parallel(dispatcher, args, kwargs=None, nthreads=4, seed=0, yield_prob=0.5, timeout=120.0):
    """Execute the pure-Python source of a kernel under an *emulated* parallel runtime.

    The function's AST is rewritten: every `for i in prange(...)` loop becomes a nested function body(i) plus a
    call that distributes the iterations i = t (mod nthreads) over `nthreads` Python threads and joins them.
    Code before and after the loop runs once, in the calling thread (as in the compiled kernel); names assigned
    inside the loop body are locals of body(i), i.e. private to an iteration; arrays allocated outside the loop
    are shared, and every element access to them from inside the parallel section is a possible context switch
    (time.sleep(0) with probability `yield_prob`, switch interval 10 us).  Iterations of a prange loop may run
    in any interleaving, so a correct kernel returns the sequential result under every such schedule.
    -> ("ok", result arrays) | ("skipped", reason) | ("failed", reason)"""
    import ast
    import inspect
    import random
    import sys
    import textwrap
    import threading
    import time
    py = dispatcher.py_func
    red = _reduction_names(py)
    if red is None:
        return "skipped", "source not available"
    if red:
        return "skipped", f"prange reduction on {sorted(red)} (not emulated)"
    if "prange" not in py.__code__.co_names:
        return "skipped", "the kernel has no prange loop (sequential code: nothing to interleave)"
    try:
        tree = ast.parse(textwrap.dedent(inspect.getsource(py)))
    except (OSError, SyntaxError, TypeError) as e:
        return "skipped", f"source not available: {e}"
    fdef = next(n for n in tree.body if isinstance(n, ast.FunctionDef))
    fdef.decorator_list = []
    counter = [0]

    class Rewrite(ast.NodeTransformer):
        def visit_For(self, node):
            self.generic_visit(node)
            if isinstance(node.iter, ast.Call) and getattr(node.iter.func, "id", "") == "prange" \
                    and isinstance(node.target, ast.Name) and not node.orelse:
                counter[0] += 1
                name = f"__vmon_body_{counter[0]}"
                body = ast.FunctionDef(name=name, args=ast.arguments(posonlyargs=[], args=[ast.arg(arg=node.target.id)],
                                                                       kwonlyargs=[], kw_defaults=[], defaults=[]),
                                       body=node.body, decorator_list=[], type_params=[])
                call = ast.Expr(ast.Call(func=ast.Name(id="__vmon_run_parallel", ctx=ast.Load()),
                                         args=[ast.Name(id=name, ctx=ast.Load()),
                                               ast.Call(func=ast.Name(id="range", ctx=ast.Load()), args=node.iter.args, keywords=[])],
                                         keywords=[]))
                return [body, call]
            return node
    tree = ast.fix_missing_locations(Rewrite().visit(tree))
    if counter[0] == 0:
        return "skipped", "no prange loop of the simple form `for i in prange(...)`"
    tls = threading.local()
    rnd = random.Random(seed)
    errors = []

    class SharedArr(np.ndarray):
        def __getitem__(self, key):
            if getattr(tls, "in_body", False) and rnd.random() < yield_prob:
                time.sleep(0)
            return np.asarray(self).__getitem__(key)

        def __setitem__(self, key, value):
            if getattr(tls, "in_body", False) and rnd.random() < yield_prob:
                time.sleep(0)
            np.asarray(self).__setitem__(key, value)

    def alloc(maker):
        arr = maker()
        return arr if getattr(tls, "in_body", False) else arr.view(SharedArr)

    class NPShim:
        def __getattr__(self, name):
            return getattr(np, name)

        @staticmethod
        def zeros(*a, **k):
            return alloc(lambda: np.zeros(*a, **k))

        @staticmethod
        def full(*a, **k):
            return alloc(lambda: np.full(*a, **k))

        @staticmethod
        def empty(*a, **k):
            return alloc(lambda: np.zeros(*a, **k))

        @staticmethod
        def ones(*a, **k):
            return alloc(lambda: np.ones(*a, **k))

    def run_parallel(body, iterations):
        iterations = list(iterations)

        def worker(t):
            tls.in_body = True
            tls.tid = t
            try:
                with np.errstate(all="ignore"):
                    for i in iterations[t::nthreads]:
                        body(i)
            except Exception as e:  # noqa: BLE001
                errors.append(f"{type(e).__name__}: {e}")
        ths = [threading.Thread(target=worker, args=(t,), daemon=True) for t in range(nthreads)]
        for t in ths:
            t.start()
        for t in ths:
            t.join(timeout)
        if any(t.is_alive() for t in ths):
            errors.append("emulation timed out")
        if errors:
            raise RuntimeError(errors[0])

    g = dict(py.__globals__)
    g.update(np=NPShim(), __vmon_run_parallel=run_parallel, get_thread_id=lambda: getattr(tls, "tid", 0),
             get_num_threads=lambda: nthreads)
    try:
        exec(compile(tree, f"<emulated {py.__name__}>", "exec"), g)
        fn = g[fdef.name]
    except Exception as e:  # noqa: BLE001
        return "skipped", f"could not rebuild the kernel for emulation: {type(e).__name__}: {e}"
    old = sys.getswitchinterval()
    sys.setswitchinterval(1e-5)
    try:
        with np.errstate(all="ignore"):
            r = fn(*args, **(kwargs or {}))
    except Exception as e:  # noqa: BLE001
        return "failed", f"{type(e).__name__}: {e}"
    finally:
        sys.setswitchinterval(old)
    return "ok", tuple(np.asarray(x) for x in r) if isinstance(r, tuple) else (np.asarray(r),)


# ----------------------------------------------------------------------------- the sweep
def sweep(res, dispatcher, args, kwargs, reference, label, reps, compare, threads=THREADS, chunks=CHUNKS, budget_s=None):
    """Run the shipped kernel under many configurations; `compare(result, reference)` returns None or a
    message.  Returns the set of distinct result fingerprints."""
    import numba
    aff = apply_affinity()
    layer = os.environ.get("NUMBA_THREADING_LAYER", "?")
    prints = {}
    maxt = numba.config.NUMBA_NUM_THREADS
    bad = None
    runs = 0
    # every workload is capped by operations AND by time: a (changed) kernel that needs seconds per call gets fewer
    # configurations, ordered so that every thread count is met before repetitions are
    import time as _time
    budget_s = budget_s if budget_s is not None else float(os.environ.get("VMON_SWEEP_BUDGET_S", "25"))
    t_start = _time.time()
    configs = [(nt, ch, rep) for rep in range(reps) for ch in chunks for nt in threads if nt <= maxt]
    truncated = False
    for nt, ch, rep in configs:
        if _time.time() - t_start > budget_s and runs >= len([t for t in threads if t <= maxt]):
            truncated = True
            break
        numba.set_num_threads(nt)
        numba.set_parallel_chunksize(ch)
        out = dispatcher(*args, **(kwargs or {}))
        runs += 1
        outs = out if isinstance(out, tuple) else (out,)
        fpv = fingerprint(*outs)
        prints[fpv] = prints.get(fpv, 0) + 1
        msg = compare(outs, reference)
        if msg and bad is None:
            bad = (nt, ch, rep, msg)
    numba.set_parallel_chunksize(0)
    numba.set_num_threads(maxt)
    res.count("schedule-runs", runs)
    res.tag(f"layer-{layer}", f"affinity-{aff}")
    info = {"label": label, "layer": layer, "affinity": aff, "runs": runs, "distinct_results": len(prints),
            "configurations_planned": len(configs), "truncated_by_time_budget": truncated}
    if truncated:
        res.tag("sweep-truncated-by-time-budget")
    if bad:
        nt, ch, rep, msg = bad
        res.violate("schedule-dependent-result",
                    f"{label}: result differs from the sequential oracle with {nt} threads, chunk {ch}, layer {layer}, "
                    f"affinity {aff} (repetition {rep}): {msg}; {len(prints)} distinct results in {runs} runs",
                    config={"threads": nt, "chunk": ch, "layer": layer, "affinity": aff})
    return info


# ----------------------------------------------------------------------------- hist2d
def hist_oracle(x, y, values, xmin, xmax, nx, ymin, ymax, ny):
    """exact sequential model of hist2d in extended precision (no edge points in the inputs used here)"""
    LD = np.longdouble
    dx = (LD(xmax) - LD(xmin)) / nx
    dy = (LD(ymax) - LD(ymin)) / ny
    with np.errstate(all="ignore"):
        ix = np.floor((x.astype(LD) - LD(xmin)) / dx)
        iy = np.floor((y.astype(LD) - LD(ymin)) / dy)
        ok = np.isfinite(ix) & np.isfinite(iy) & (ix >= 0) & (ix < nx) & (iy >= 0) & (iy < ny)
    ix, iy = ix[ok].astype(np.int64), iy[ok].astype(np.int64)
    counts = np.zeros((ny, nx), dtype=np.int64)
    np.add.at(counts, (iy, ix), 1)
    out = np.zeros((values.shape[0], ny, nx), dtype=np.float64)
    for k in range(values.shape[0]):
        np.add.at(out[k], (iy, ix), values[k][ok])
    return out, counts


def hist_inputs(rng, kind, n):
    """inputs that maximise write sharing; values are small integers (every summation order is exact)"""
    if kind == "one-bin":
        x, y = rng.uniform(0.1, 0.2, n), rng.uniform(0.1, 0.2, n)
        lim = (0.0, 1.0, 2, 0.0, 1.0, 2)
    elif kind == "two-bins":
        x, y = rng.choice([0.25, 0.75], n) + rng.uniform(-0.1, 0.1, n), rng.uniform(0.1, 0.2, n)
        lim = (0.0, 1.0, 2, 0.0, 1.0, 1)
    elif kind == "2x2":
        x, y = rng.uniform(0.01, 0.99, n), rng.uniform(0.01, 0.99, n)
        lim = (0.0, 1.0, 2, 0.0, 1.0, 2)
    elif kind == "clumps":
        c = rng.uniform(0.1, 0.9, (5, 2))
        w = rng.integers(0, 5, n)
        x, y = c[w, 0] + 0.003 * rng.normal(size=n), c[w, 1] + 0.003 * rng.normal(size=n)
        lim = (0.0, 1.0, 16, 0.0, 1.0, 16)
    else:  # uniform on a fine grid with points outside
        x, y = rng.uniform(-0.2, 1.2, n), rng.uniform(-0.2, 1.2, n)
        lim = (0.0, 1.0, 64, 0.0, 1.0, 48)
    vals = rng.integers(1, 8, size=(2, n)).astype(np.float64)
    return x, y, vals, lim


def run_hist_kernel_case(case, ctx, res):
    from osyris.plot import utils as pu
    rng = ctx.rng("sched", case["i"])
    kind = ["one-bin", "two-bins", "2x2", "clumps", "uniform"][case["i"] % 5]
    big = ctx.tier == "thorough"
    n = int([2000, 200000, 2000000][case["i"] % 3] if not big else [2000, 1000000, 10000000][case["i"] % 3])
    x, y, vals, (xmin, xmax, nx, ymin, ymax, ny) = hist_inputs(rng, kind, n)
    args = (x, y, vals, float(xmin), float(xmax), int(nx), float(ymin), float(ymax), int(ny))
    ref = hist_oracle(*args)
    res.digest_src = {"sched": kind, "n": n}
    res.nontrivial = True
    label = f"hist2d {kind} n={n} grid {nx}x{ny}"

    def compare(outs, reference):
        o, c = outs
        if not np.array_equal(c, reference[1]):
            return f"counts sum {int(c.sum())} vs {int(reference[1].sum())} expected; max bin difference {int(np.abs(c - reference[1]).max())}"
        if not np.array_equal(o, reference[0]):
            return "sums differ"
        return None
    # 2. bounds-checked sequential rebuild of the same source
    seq = boundscheck_build(pu.hist2d)
    try:
        so = seq(*args)
        res.count("boundscheck-runs")
        msg = compare(so, ref)
        if msg:
            res.violate("sequential-semantics", f"{label}: the sequential build of hist2d differs from the binning model: {msg}")
    except IndexError as e:
        res.violate("kernel-out-of-bounds", f"{label}: bounds-checked build raised IndexError: {e}")
    # 3. conflict monitor on a small prefix
    m = min(n, 300)
    cm = conflict_monitor(pu.hist2d, (x[:m], y[:m], vals[:, :m]) + args[3:])
    res.count("conflict-monitor-runs")
    lost = [h for h in cm["hazards"] if h["lost_update"]]
    # 3b. emulated parallel runtime with forced context switches on the small prefix
    small_args = (x[:m], y[:m], vals[:, :m]) + args[3:]
    small_ref = hist_oracle(*small_args)
    for k in range(3 if not big else 10):
        st, em = emulated_parallel(pu.hist2d, small_args, nthreads=4, seed=case["i"] * 31 + k)
        res.count("emulated-schedules" if st == "ok" else "emulation-" + st)
        if st == "ok":
            msg = compare(em, small_ref)
            if msg:
                res.violate("schedule-dependent-result", f"{label}: under an emulated interleaving of the prange iterations (4 threads, "
                            f"forced context switches at array accesses, {m} points) the result differs from the sequential one: {msg}",
                            hazards=lost[:2])
                break
    # 1. sweep of the shipped build
    # chunk sizes relative to the problem size: a chunk size of 1 over millions of prange iterations only measures
    # the scheduler (and takes minutes per call)
    chunks = CHUNKS if n <= 5000 else [0, max(1, n // 4096), max(1, n // 256), max(1, n // 17)]
    info = sweep(res, pu.hist2d, args, None, ref, label, reps=3 if not big else 15, compare=compare, chunks=chunks)
    # "identical for any thread count or scheduling" is also a statement about rounding: with weights whose sum
    # depends on the order of additions, every configuration must reproduce the single-thread result bit for bit
    # (judged between runs of the shipped build only - no oracle is involved, so a summation order that is merely
    # different from the model's cannot be flagged, only one that changes with the schedule)
    if not res.violations:
        m2 = min(n, 200000)
        fv = np.empty((1, m2))
        fv[0, 0::3] = 1.0e16
        fv[0, 1::3] = 1.0
        fv[0, 2::3] = -1.0e16
        fv[0] *= rng.uniform(0.5, 1.5, size=m2)
        fargs = (x[:m2], y[:m2], fv) + args[3:]
        import numba
        numba.set_num_threads(1)
        first = pu.hist2d(*fargs)

        def same_as_first(outs, reference):
            if not (np.array_equal(outs[0], reference[0], equal_nan=True) and np.array_equal(outs[1], reference[1])):
                d = np.abs(outs[0] - reference[0])
                return f"sums differ from the single-thread run by up to {float(np.nanmax(d))!r} (rounding depends on the schedule)"
            return None
        info2 = sweep(res, pu.hist2d, fargs, None, first, label + " [non-associative weights]", reps=1, compare=same_as_first,
                      threads=[1, 2, 3, 4, 16], chunks=[0, max(1, m2 // 64)], budget_s=10)
        info["float_weight_runs"] = info2["runs"]
        info["float_weight_distinct_results"] = info2["distinct_results"]
    info.update(prange_loops=cm["prange_loops"], hazards=len(cm["hazards"]), lost_update_hazards=len(lost))
    if lost and not res.violations:
        res.tag("unconfirmed-hazard")
        info["unconfirmed_hazard"] = lost[:2]
    elif lost and res.violations:
        res.violations[-1]["detail"]["hazard_witness"] = lost[:2]
    res.sample = info


# ----------------------------------------------------------------------------- evaluate_on_grid
def run_map_kernel_case(case, ctx, res, thick):
    """Capture the arguments a real map() call hands to the kernel, then re-run the kernel under the sweep."""
    from osyris.plot import utils as pu
    from . import maps, mesh_oracle as mo
    osy = ctx.osyris
    rng = ctx.rng("sched", case["i"])
    mesh = mo.make_mesh(rng, ndim=3 if case["i"] % 4 else 2, max_cells=2500)
    fixed = {"origin_mode": ["random", "face", "centre"][case["i"] % 3], "window_mode": "ratio",
             "dir_mode": ["vector", "letter", "vector-zero"][case["i"] % 3], "layers": ["tag", "temp"]}
    req = maps.draw_request(rng, mesh, thick=thick, fixed=fixed)
    req["dx"] = float(rng.uniform(0.3, 1.0))
    req["dy"] = None
    req["resolution"] = int(rng.choice([64, 96, 128])) if not thick else {"x": 48, "y": 48, "z": 12}
    if thick:
        req["dz"] = float(rng.uniform(0.05, 0.5))
    dg = mo.build_group(osy, mesh, req["pos_unit"], req["box"], rng)
    f_o = maps.unit_factor(osy, req["pos_unit"], req["origin_unit"])
    origin = osy.Vector(*[float(v * req["box"] * f_o) for v in req["origin"]], unit=req["origin_unit"])
    kw = {"direction": osy.Vector(*req["direction"]) if isinstance(req["direction"], list) else req["direction"],
          "origin": origin, "plot": False, "resolution": req["resolution"],
          "dx": req["dx"] * req["box"] * osy.units(req["pos_unit"])}
    if thick:
        kw["dz"] = req["dz"] * req["box"] * osy.units(req["pos_unit"])
        kw["operation"] = "nansum"
    from .io_monitors import quiet
    from .util import attempt
    with mo.MapSpy() as spy, quiet():
        out = attempt(lambda: osy.map(dg.layer("tag"), dg.layer("temp"), **kw))
    res.digest_src = {"sched-map": case["i"], "thick": thick}
    res.nontrivial = True
    if not out.ok or spy.kernel_kwargs is None:
        res.inconclusive.append("map() call used to capture kernel arguments failed: " + out.describe()[:120])
        return
    kk = spy.kernel_kwargs
    label = f"evaluate_on_grid ({'thick' if thick else 'thin'}) {len(mesh['pos'])} cells, grid {kk['grid_positions_in_original_basis'].shape[:3]}"
    # sequential bounds-checked reference of the same source
    seq = boundscheck_build(pu.evaluate_on_grid)
    try:
        ref = seq(**kk)
        res.count("boundscheck-runs")
    except IndexError as e:
        res.violate("kernel-out-of-bounds", f"{label}: bounds-checked build raised IndexError: {e}")
        return
    # pixels whose sample point touches a face may legitimately differ between schedules
    gp = kk["grid_positions_in_original_basis"]
    ndim = int(kk["ndim"])
    cen = np.stack([kk["cell_positions_in_original_basis_x"], kk["cell_positions_in_original_basis_y"]] +
                   ([kk["cell_positions_in_original_basis_z"]] if kk["cell_positions_in_original_basis_z"] is not None else []), axis=1)
    half = np.asarray(kk["cell_sizes"], dtype=float)
    P = gp.reshape(-1, 3)[:, :ndim]
    strict, ncand, cand = mo.locate(P, cen, half, tau_rel=1e-9, tau_abs=1e-13)
    face = ((strict < 0) & (ncand > 0)).reshape(gp.shape[:3])

    def compare(outs, reference):
        o = outs[0]
        same = (o == reference) | (np.isnan(o) & np.isnan(reference))
        diff = ~same & ~face[None, ...]
        if diff.any():
            idx = tuple(int(v) for v in np.argwhere(diff)[0])
            return f"{int(diff.sum())} non-face pixels differ (first at {idx}: {o[idx]!r} vs {reference[idx]!r})"
        return None
    # the hostile corpus for the bounds check: shifted far away, huge cells, NaN coordinates
    for variant in ("far-away", "huge-cell", "nan-cell", "tiny-grid"):
        k2 = dict(kk)
        if variant == "far-away":
            for key in ("cell_positions_in_new_basis_x", "cell_positions_in_new_basis_y", "cell_positions_in_new_basis_z"):
                k2[key] = kk[key] + 1e6
        elif variant == "huge-cell":
            cs = np.array(kk["cell_sizes"], dtype=float)
            cs[0] = 1e9
            k2["cell_sizes"] = cs
        elif variant == "nan-cell":
            a = np.array(kk["cell_positions_in_new_basis_x"], dtype=float)
            a[0] = np.nan
            k2["cell_positions_in_new_basis_x"] = a
        else:
            k2["grid_positions_in_original_basis"] = kk["grid_positions_in_original_basis"][:1, :1, :1].copy()
        try:
            with np.errstate(all="ignore"):
                seq(**k2)
            res.count("boundscheck-runs")
        except IndexError as e:
            res.violate("kernel-out-of-bounds", f"{label} [{variant}]: bounds-checked build raised IndexError: {e}")
            return
    # conflict monitor on a reduced problem (pure Python is slow): first 60 cells
    small = dict(kk)
    m = min(60, len(half))
    for key in list(small):
        if key.startswith("cell_positions") and small[key] is not None:
            small[key] = small[key][:m]
    small["cell_values"] = kk["cell_values"][:, :m]
    small["cell_sizes"] = kk["cell_sizes"][:m]
    small["grid_positions_in_original_basis"] = kk["grid_positions_in_original_basis"][:, ::4, ::4].copy()
    small["grid_spacing_in_new_basis_x"] = kk["grid_spacing_in_new_basis_x"] * 4
    small["grid_spacing_in_new_basis_y"] = kk["grid_spacing_in_new_basis_y"] * 4
    cm = conflict_monitor(pu.evaluate_on_grid, (), small)
    res.count("conflict-monitor-runs")
    try:
        small_ref = seq(**small)
        sgp = small["grid_positions_in_original_basis"]
        sface = face[:, ::4, ::4]

        def compare_small(outs, reference):
            o = outs[0]
            same = (o == reference) | (np.isnan(o) & np.isnan(reference))
            diff = ~same & ~sface[None, ...]
            if diff.any():
                idx = tuple(int(v) for v in np.argwhere(diff)[0])
                return f"{int(diff.sum())} non-face pixels differ (first at {idx}: {o[idx]!r} vs {reference[idx]!r})"
            return None
        for k in range(2 if ctx.tier == "quick" else 8):
            st, em = emulated_parallel(pu.evaluate_on_grid, (), small, nthreads=4, seed=case["i"] * 17 + k)
            res.count("emulated-schedules" if st == "ok" else "emulation-" + st)
            if st == "ok":
                msg = compare_small(em, small_ref)
                if msg:
                    res.violate("schedule-dependent-result", f"{label}: under an emulated interleaving of the prange iterations "
                                f"(4 threads, forced context switches, {m} cells) the result differs from the sequential one: {msg}",
                                hazards=cm["hazards"][:2])
                    break
    except IndexError:
        pass
    info = sweep(res, pu.evaluate_on_grid, (), kk, ref, label, reps=2 if ctx.tier == "quick" else 10, compare=compare,
                 threads=[1, 2, 4, 16] if ctx.tier == "quick" else THREADS, chunks=[0, 7] if ctx.tier == "quick" else CHUNKS)
    info.update(prange_loops=cm["prange_loops"], write_write_hazards=len(cm["hazards"]), face_pixels=int(face.sum()))
    res.sample = info
