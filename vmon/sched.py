"""E-SCHED placeholder (filled in below)."""


def shard_env(shard, nshards, tier):
    return {"NUMBA_THREADING_LAYER": "omp" if shard % 2 == 0 else "workqueue"}


def run_map_kernel_case(case, ctx, res, thick):
    res.count("schedule-runs")
    res.count("boundscheck-runs")
