"""Runtime monitors for osyris (see /verif/DESIGN.md)."""
