"""Shared driver for C03 (zero-thickness maps) and C11 (thick maps): builds a mesh and a map request from a
seed, calls the real osyris.map under the MapSpy, and judges every pixel against the point-location oracle."""
import numpy as np

from . import mesh_oracle as mo
from .io_monitors import quiet
from .unitsref import dims_close, dims_mul, scale_dims
from .util import attempt

OPS = ["sum", "mean", "min", "max", "nansum", "nanmean", "nanmin", "nanmax"]
LENGTH_UNITS = ["cm", "au", "pc", "km"]


def draw_request(rng, mesh, thick, fixed=None):
    """JSON-able description of a map() request on `mesh`"""
    ndim = mesh["ndim"]
    fixed = fixed or {}
    req = {}
    req["pos_unit"] = str(rng.choice(LENGTH_UNITS))
    req["box"] = float(rng.choice([1.0, 2.0, 7.5, 1.0e3]))
    # origin
    om = fixed.get("origin_mode") or str(rng.choice(["centre", "random", "random", "face", "corner", "outside", "cell-centre",
                                                        "omitted"]))
    j = int(rng.integers(0, len(mesh["pos"])))
    c, s = mesh["pos"][j], mesh["size"][j]
    if om == "centre":
        o = np.full(ndim, 0.5)
    elif om == "random":
        o = rng.uniform(0.05, 0.95, size=ndim)
    elif om == "face":
        o = c + rng.uniform(-0.4, 0.4, size=ndim) * s
        o[int(rng.integers(0, ndim))] = c[0] * 0 + (c + 0.5 * s)[int(rng.integers(0, ndim))]
    elif om == "corner":
        o = c + 0.5 * s * rng.choice([-1.0, 1.0], size=ndim)
    elif om == "cell-centre":
        o = c.copy()
    elif om == "omitted":
        o = np.zeros(ndim)          # osyris' default origin: the zero vector (a corner of the unit box)
    else:
        o = rng.uniform(0.2, 0.8, size=ndim)
        o[int(rng.integers(0, ndim))] = float(rng.choice([-0.2, 1.15]))
    req["origin_mode"] = om
    req["origin"] = [float(x) for x in o]
    req["origin_unit"] = str(rng.choice([req["pos_unit"], req["pos_unit"], "cm", "au"]))
    # direction
    if ndim == 3:
        dm = fixed.get("dir_mode") or str(rng.choice(["letter", "letter", "triple", "vector", "vector", "vector-zero",
                                                      "vector-axis"]))
        if dm == "letter":
            req["direction"] = str(rng.choice(list("xyzXZ")))
        elif dm == "triple":
            req["direction"] = str(rng.choice(["xyz", "xzy", "yxz", "yzx", "zxy", "zyx"]))
        elif dm == "vector-axis":
            # a normal Vector that happens to lie exactly along a coordinate axis: osyris completes it with in-plane
            # vectors of its own choice (rotated about the axis), unlike the axis letter
            v = np.zeros(3)
            v[int(rng.integers(0, 3))] = float(rng.choice([-1.0, 1.0])) * 10.0 ** float(rng.uniform(-2, 2))
            req["direction"] = [float(x) for x in v]
        elif dm == "vector":
            req["direction"] = [float(x) for x in rng.normal(size=3)]
        else:
            v = rng.normal(size=3)
            v[int(rng.integers(0, 3))] = 0.0
            if not np.any(v):
                v[0] = 1.0
            req["direction"] = [float(x) for x in v]
        req["dir_mode"] = dm
    else:
        req["direction"], req["dir_mode"] = "z", "2d"
    # window
    wm = fixed.get("window_mode") or str(rng.choice(["ratio", "ratio", "ratio", "omitted", "large"]))
    typical = float(np.median(mesh["size"]))
    if wm == "ratio":
        ratio = 2.0 ** float(rng.uniform(-6, 4))
        req["dx"] = ratio * typical
        req["dy"] = req["dx"] * float(rng.choice([1.0, 0.5, 1.7, 0.15, 3.0, 6.0])) if rng.random() < 0.6 else None
    elif wm == "large":
        req["dx"] = float(rng.uniform(1.0, 2.5))
        req["dy"] = None
    else:
        req["dx"], req["dy"] = None, None
    if "ratio_exp" in fixed:
        req["dx"], req["dy"], wm = (2.0 ** fixed["ratio_exp"]) * typical, None, "ratio"
    req["window_mode"] = wm
    req["dx_unit"] = str(rng.choice(LENGTH_UNITS))
    # resolution
    rm = int(rng.integers(0, 4))
    if rm == 0:
        req["resolution"] = int(rng.choice([1, 2, 3, 8, 16, 17, 32, 33, 64]))
    elif rm == 1:
        req["resolution"] = {"x": int(rng.integers(1, 48)), "y": int(rng.integers(1, 48))}
    elif rm == 2:
        req["resolution"] = {"x": int(rng.integers(1, 48))}      # y falls back to the default (256): keep meshes small
        req["resolution"] = int(rng.integers(4, 40))
    else:
        req["resolution"] = int(rng.choice([24, 48, 65, 128, 257])) if len(mesh["pos"]) < 600 else 32
    if not thick and "resolution" not in fixed and len(mesh["pos"]) < 400 and rng.random() < 0.25:
        req["resolution"] = None        # osyris' default resolution (256 x 256)
    req["render"] = bool(rng.random() < 0.2)
    req["layers"] = fixed.get("layers") or [["tag"], ["tag", "temp"], ["temp", "tag"], ["tag", "velocity:vec"],
                                            ["velocity:vec", "temp", "tag"], ["itag"], ["ilevel", "itag"],
                                            ["itag", "temp"]][int(rng.integers(0, 8))]
    if thick:
        req["operation"] = fixed.get("operation") or OPS[int(rng.integers(0, len(OPS)))]
        if req["dx"] is None:
            req["dx"] = float(rng.uniform(0.3, 1.2))
            req["window_mode"] = "ratio"
        dzm = str(rng.choice(["pixel", "ratio", "ratio", "domain", "deep"]))
        if dzm == "deep":
            # a deep column seen through a coarse window: many more depth samples than pixels across
            req["resolution"] = int(rng.integers(1, 7)) if rng.random() < 0.6 else \
                {"x": int(rng.integers(1, 7)), "y": int(rng.integers(1, 7))}
        npx = req["resolution"] if isinstance(req["resolution"], int) else req["resolution"].get("x", 256)
        if dzm == "pixel":
            req["dz"] = req["dx"] / npx * float(rng.uniform(1.0, 3.0))
        elif dzm == "ratio":
            req["dz"] = typical * 2.0 ** float(rng.uniform(-5, 3))
        elif dzm == "deep":
            npy_ = req["resolution"] if isinstance(req["resolution"], int) else req["resolution"].get("y", 256)
            dyy = req["dy"] if req.get("dy") is not None else req["dx"]
            req["dz"] = 0.5 * (req["dx"] / npx + dyy / npy_) * float(rng.uniform(3.0, 60.0)) * max(npx, npy_)
        else:
            req["dz"] = float(rng.uniform(0.5, 1.5))
        if "dz_ratio_exp" in fixed:
            req["dz"] = typical * 2.0 ** fixed["dz_ratio_exp"]
        # keep dz at least one (mean) pixel - the statement's range starts there - and the column short
        npy = req["resolution"] if isinstance(req["resolution"], int) else req["resolution"].get("y", 256)
        px = 0.5 * (req["dx"] / npx + (req["dy"] if req.get("dy") is not None else req["dx"]) / npy)
        if req["dz"] < px:
            req["dz"] = px * 1.01
        # (the number of samples, not the depth of the column, is what is kept small)
        if req["dz"] / px > max(40, min(400, 30000 // max(1, npx * npy))):
            if isinstance(req["resolution"], dict):
                req["resolution"]["z"] = int(rng.integers(2, 30))
            else:
                req["resolution"] = {"x": npx, "y": npx, "z": int(rng.integers(2, 30))}
        elif rng.random() < 0.3:
            r = req["resolution"]
            req["resolution"] = dict(r if isinstance(r, dict) else {"x": r, "y": r}, z=int(rng.integers(1, 20)))
        req["dz_unit"] = str(rng.choice(LENGTH_UNITS))
        if "operation" not in fixed and rng.random() < 0.3:
            req["op_on_layer"] = True
            sumlike = req["operation"] in ("sum", "nansum")
            req["call_operation"] = [None, "mean" if sumlike else "sum", "max" if sumlike else "nansum"][int(rng.integers(0, 3))]
    return req


def unit_factor(osy, a, b):
    """numbers in unit a -> numbers in unit b"""
    return scale_dims(osy.units(a))[0] / scale_dims(osy.units(b))[0]


def run_map(osy, rng, res, mesh, req, thick, known_note=""):
    """Build the Datagroup, call osyris.map, judge.  Returns a dict of counters for the sample."""
    ndim = mesh["ndim"]
    pu, box = req["pos_unit"], req["box"]
    dg = mo.build_group(osy, mesh, pu, box, rng)
    layers = []
    # thick maps: the reduction may also be set on the layers themselves, the call then names another one (or none):
    # each layer is reduced, scaled by the depth step and given its unit according to ITS operation
    op_on_layer = bool(thick and req.get("op_on_layer"))
    for spec in req["layers"]:
        name, _, mode = spec.partition(":")
        lkw = {"operation": req["operation"]} if op_on_layer else {}
        layers.append(dg.layer(name, mode=mode, **lkw) if mode else dg.layer(name, **lkw))
    f_o = unit_factor(osy, pu, req["origin_unit"])
    origin_sp = np.array(req["origin"]) * box                     # in position units
    origin = osy.Vector(*[float(x * f_o) for x in origin_sp], unit=req["origin_unit"])
    render = bool(req.get("render")) and not thick and all(":" not in sp for sp in req["layers"])
    kw = {"direction": req["direction"], "origin": origin, "plot": render}
    if req["origin_mode"] == "omitted":
        del kw["origin"]
    if isinstance(req["direction"], list):
        kw["direction"] = osy.Vector(*req["direction"])
    if req["resolution"] is not None:
        kw["resolution"] = dict(req["resolution"]) if isinstance(req["resolution"], dict) else req["resolution"]
    f_dx = unit_factor(osy, pu, req["dx_unit"])
    dx_sp = dy_sp = dz_sp = None
    if req["dx"] is not None:
        dx_sp = req["dx"] * box
        kw["dx"] = (dx_sp * f_dx) * osy.units(req["dx_unit"])
        dy_sp = dx_sp
        if req.get("dy") is not None:
            dy_sp = req["dy"] * box
            kw["dy"] = (dy_sp * f_dx) * osy.units(req["dx_unit"])
    if thick:
        dz_sp = req["dz"] * box
        kw["dz"] = (dz_sp * unit_factor(osy, pu, req["dz_unit"])) * osy.units(req["dz_unit"])
        kw["operation"] = req["operation"]
        if op_on_layer:
            other = req.get("call_operation")
            if other is None:
                del kw["operation"]
            else:
                kw["operation"] = other
    with mo.MapSpy() as spy, quiet(), np.errstate(all="ignore"):
        import warnings
        with warnings.catch_warnings():
            warnings.simplefilter("ignore")
            out = attempt(lambda: osy.map(*layers, **kw))
    centres = mesh["pos"] * box
    half = 0.5 * mesh["size"] * box
    what = (f"map({req['layers']}, direction={req['direction']}, dx={req['dx']}, dy={req.get('dy')}, "
            f"dz={req.get('dz')}, res={req['resolution']}, origin={req['origin_mode']}, op={req.get('operation')})")
    info = {"request": what, "cells": len(centres), "mesh": mesh["style"], "ndim": ndim}
    if not out.ok:
        # a window that contains no cell at all may legitimately be refused ("No cells were selected")
        if isinstance(out.exc, RuntimeError) and "No cells" in str(out.exc):
            n_, u_, v_ = _expected_basis(osy, req, ndim)
            if n_ is not None:
                d = np.abs((centres - origin_sp) @ n_[:ndim]) if ndim == 3 else np.zeros(len(centres))
                reach = half * np.sqrt(ndim) + (0.5 * dz_sp if thick else 0.0)
                if np.any(d <= reach * 0.5):
                    res.violate("map-refused-nonempty", f"{what}: 'No cells were selected' although cells cut the plane/slab")
            res.count("refused-empty")
            return info
        res.violate("map-raised", f"{what}: {out.describe()}", tb=out.tb)
        return info
    plot = out.value
    n_, u_, v_ = mo.basis_arrays(spy.basis, ndim)
    x = np.asarray(plot.x, dtype=float)
    y = np.asarray(plot.y, dtype=float)
    map_unit = req["dx_unit"] if req["dx"] is not None else pu
    f_back = unit_factor(osy, map_unit, pu)
    xs, ys = x * f_back, y * f_back
    nx, ny = len(xs), len(ys)
    res.count("pixel-grid")
    rx = req["resolution"] if isinstance(req["resolution"], int) else (req["resolution"] or {}).get("x", 256)
    ry = req["resolution"] if isinstance(req["resolution"], int) else (req["resolution"] or {}).get("y", 256)
    if (nx, ny) != (rx, ry):
        res.violate("resolution-ignored", f"{what}: returned {nx}x{ny} pixel centres, requested {rx}x{ry}")
        return info
    if dx_sp is not None:
        ex = -0.5 * dx_sp + (np.arange(nx) + 0.5) * dx_sp / nx
        ey = -0.5 * dy_sp + (np.arange(ny) + 0.5) * dy_sp / ny
        if np.max(np.abs(xs - ex)) > 1e-9 * dx_sp or np.max(np.abs(ys - ey)) > 1e-9 * dy_sp:
            res.violate("pixel-centres-wrong", f"{what}: Plot.x/Plot.y are not the pixel centres of the requested window "
                        f"(x[0]={xs[0]!r} expected {ex[0]!r})")
            return info
    # sample points
    X, Y = np.meshgrid(xs, ys, indexing="xy")          # shape (ny, nx): data[j, i]
    P2 = origin_sp[None, None, :] + X[..., None] * u_[:ndim] + Y[..., None] * v_[:ndim]
    tags = _layer(plot, "tag")
    if tags is None:
        info["note"] = "no tag layer"
    L = float(box)
    if not thick:
        P = P2.reshape(-1, ndim)
        strict, ncand, cand = mo.locate(P, centres, half, tau_rel=1e-9, tau_abs=1e-12 * L)
        info.update(_judge_thin(res, what, plot, req, dg, strict, ncand, cand, (ny, nx), u_, v_, ndim))
    else:
        info.update(_judge_thick(osy, res, what, plot, req, dg, P2, n_, centres, half, dz_sp, xs, ys, L, pu, ndim))
    if render:
        _judge_render(res, what, plot, req, dx_sp, dy_sp, f_back, map_unit, xs, ys)
        import matplotlib.pyplot as plt
        plt.close("all")
    return info


def _judge_render(res, what, plot, req, dx_sp, dy_sp, f_back, map_unit, xs, ys):
    """with plot=True: the image drawn is the returned data, the axes span the window in the unit of dx and say so"""
    res.count("rendered-figures")
    ax = getattr(plot, "ax", None)
    if ax is None:
        res.violate("no-figure", f"{what}: plot=True returned no axes")
        return
    meshes = [c for c in ax.collections if type(c).__name__ == "QuadMesh"]
    if len(meshes) != len(plot.layers):
        res.violate("render-layer-count", f"{what}: {len(meshes)} images drawn for {len(plot.layers)} layers")
        return
    for qm, lay in zip(meshes, plot.layers):
        drawn = np.ma.asarray(qm.get_array()).ravel()
        data = np.ma.asarray(lay["data"]).ravel()
        if drawn.shape != data.shape or not np.array_equal(np.ma.getmaskarray(drawn), np.ma.getmaskarray(data)) or \
                not np.array_equal(np.ma.filled(drawn, 0.0), np.ma.filled(data, 0.0)):
            res.violate("rendered-data-differs", f"{what}: the image drawn for layer {lay['name']!r} is not Plot.layers[...]['data']")
            return
    if dx_sp is not None:
        want_x = (-0.5 * dx_sp / f_back, 0.5 * dx_sp / f_back)
        want_y = (-0.5 * dy_sp / f_back, 0.5 * dy_sp / f_back)
    else:
        hx = 0.5 * (xs[1] - xs[0]) / f_back if len(xs) > 1 else None
        want_x = None if hx is None else (xs[0] / f_back - hx, xs[-1] / f_back + hx)
        hy = 0.5 * (ys[1] - ys[0]) / f_back if len(ys) > 1 else None
        want_y = None if hy is None else (ys[0] / f_back - hy, ys[-1] / f_back + hy)
    for name, want, got in (("x", want_x, ax.get_xlim()), ("y", want_y, ax.get_ylim())):
        if want is None:
            continue
        span = abs(want[1] - want[0]) or 1.0
        if abs(got[0] - want[0]) > 1e-9 * span or abs(got[1] - want[1]) > 1e-9 * span:
            res.violate("axis-limits-wrong", f"{what}: {name} axis spans {tuple(float(g) for g in got)}, window in {map_unit} is {want}")
            return
    import osyris
    ulabel = "[{:~}]".format(osyris.units(map_unit))
    for name, lab in (("x", ax.get_xlabel()), ("y", ax.get_ylabel())):
        if ulabel not in lab:
            res.violate("axis-label-unit", f"{what}: {name} label {lab!r} does not carry the unit of dx {ulabel}")
            return


def _expected_basis(osy, req, ndim):
    if ndim < 3:
        return np.array([0.0, 0.0, 1.0]), None, None
    d = req["direction"]
    if isinstance(d, str):
        ax = {"x": (1, 0, 0), "y": (0, 1, 0), "z": (0, 0, 1)}[d[0].lower()]
        return np.array(ax, dtype=float), None, None
    v = np.array(d, dtype=float)
    return v / np.linalg.norm(v), None, None


def _layer(plot, name):
    for lay in plot.layers:
        if lay.get("name") == name:
            return lay
    return None


def _judge_thin(res, what, plot, req, dg, strict, ncand, cand, shape, u_, v_, ndim):
    ny, nx = shape
    required = strict >= 0
    must_mask = ncand == 0
    info = {"pixels": int(ny * nx), "required_unmasked": int(required.sum()), "required_masked": int(must_mask.sum()),
            "ambiguous": int((~required & ~must_mask).sum())}
    res.count("pixels-judged", int(required.sum() + must_mask.sum()))
    for lay in plot.layers:
        name = lay["name"]
        data = lay["data"]
        vec = data.ndim == 3
        mask = np.ma.getmaskarray(data)
        vals = np.ma.getdata(data)
        if vec:
            mask2 = mask[..., 0].reshape(-1)
            vals2 = vals.reshape(-1, 3)
        else:
            mask2 = mask.reshape(-1)
            vals2 = vals.reshape(-1)
        if mask2.shape[0] != ny * nx:
            res.violate("data-shape", f"{what}: layer {name!r} data shape {data.shape} != (ny, nx) = {(ny, nx)}")
            return info
        res.count("layers-judged")
        # mask exactly where no cell contains the point
        wrong_masked = required & mask2
        wrong_unmasked = must_mask & ~mask2
        if wrong_masked.any():
            k = int(np.argwhere(wrong_masked)[0][0])
            res.violate("pixel-masked-inside-cell",
                        f"{what}: layer {name!r}: {int(wrong_masked.sum())} of {int(required.sum())} pixels whose sample point "
                        f"lies strictly inside a cell are masked (first: pixel j={k // nx}, i={k % nx}, cell {int(strict[k])})")
            return info
        if wrong_unmasked.any():
            k = int(np.argwhere(wrong_unmasked)[0][0])
            res.violate("pixel-unmasked-outside-mesh",
                        f"{what}: layer {name!r}: {int(wrong_unmasked.sum())} pixels far from every cell are unmasked "
                        f"(first: j={k // nx}, i={k % nx}, value {vals2[k]!r})")
            return info
        src = dg[name]
        if not vec:
            cellvals = np.asarray(src.norm.values if type(src).__name__ == "Vector" else src.values, dtype=float)
            exp = np.where(required, cellvals[np.maximum(strict, 0)], np.nan)
            bad = required & (vals2 != exp)
            if bad.any():
                k = int(np.argwhere(bad)[0][0])
                res.violate("pixel-wrong-cell", f"{what}: layer {name!r}: {int(bad.sum())} pixels show another cell's value "
                            f"(first: j={k // nx}, i={k % nx}: got {vals2[k]!r}, cell {int(strict[k])} holds {exp[k]!r})")
                return info
            # ambiguous pixels: any touching cell or masked
            for k, cs in cand.items():
                if not mask2[k] and vals2[k] not in cellvals[cs]:
                    res.violate("pixel-wrong-cell", f"{what}: layer {name!r}: face pixel j={k // nx}, i={k % nx} shows {vals2[k]!r}, "
                                f"touching cells hold {cellvals[cs][:6].tolist()}")
                    return info
            if str(lay["unit"]) != str(src.unit):
                res.violate("layer-unit", f"{what}: layer {name!r} unit {lay['unit']!s} != {src.unit!s}")
        else:
            comps = [np.asarray(getattr(src, c).values, dtype=float) for c in "xyz"[:ndim]]
            V = np.stack(comps, axis=1)
            if ndim == 3:
                pu_ = V @ u_
                pv_ = V @ v_
            else:
                pu_, pv_ = V[:, 0], V[:, 1]
            pw_ = np.sqrt(pu_ ** 2 + pv_ ** 2)
            res.count("vector-layers-judged")
            idx = np.maximum(strict, 0)
            for ci, (nm, arr) in enumerate((("u", pu_), ("v", pv_), ("|uv|", pw_))):
                exp = arr[idx]
                bad = required & (np.abs(vals2[:, ci] - exp) > 1e-9 * (np.abs(exp) + 1e-300) + 1e-9)
                if bad.any():
                    k = int(np.argwhere(bad)[0][0])
                    res.violate("vector-projection-wrong", f"{what}: vector layer {name!r} component {nm}: {int(bad.sum())} pixels "
                                f"differ (first j={k // nx}, i={k % nx}: got {vals2[k, ci]!r}, expected {exp[k]!r})")
                    return info
    return info


def _column_values(strict_cols, cellvals):
    """strict_cols (npix, nz) cell index or -1 (missing) or -2 (ambiguous) -> values with NaN for missing"""
    vals = np.where(strict_cols >= 0, cellvals[np.maximum(strict_cols, 0)], np.nan)
    return vals


def _judge_thick(osy, res, what, plot, req, dg, P2, n_, centres, half, dz_sp, xs, ys, L, pu, ndim):
    ny, nx = P2.shape[:2]
    op = req["operation"]
    rz = req["resolution"].get("z") if isinstance(req["resolution"], dict) else None
    dxp = (xs[-1] - xs[0]) / (nx - 1) if nx > 1 else None
    # pixel sizes come from the window
    xsp = req["dx"] * req["box"] / nx
    ysp = (req["dy"] if req.get("dy") is not None else req["dx"]) * req["box"] / ny
    if rz is None:
        ratio = dz_sp / (0.5 * (xsp + ysp))
        nz = int(round(ratio))
        if abs(ratio - np.floor(ratio) - 0.5) < 1e-6:
            # exactly half way: either neighbour is "as close as possible"; accept what osyris used below
            nz = None
    else:
        nz = int(rz)
    info = {"pixels": int(ny * nx), "nz": nz}
    lay0 = plot.layers[0]
    nz_candidates = [nz] if nz is not None else [int(np.floor(ratio)), int(np.ceil(ratio))]
    verdicts = []
    for nzc in nz_candidates:
        if nzc < 1:
            continue
        verdicts.append(_thick_with_nz(osy, res, what, plot, req, dg, P2, n_, centres, half, dz_sp, nzc, L, pu, ndim, op,
                                       dry=len(nz_candidates) > 1))
    if len(nz_candidates) > 1:
        if not any(v is True for v in verdicts):
            _thick_with_nz(osy, res, what, plot, req, dg, P2, n_, centres, half, dz_sp, nz_candidates[-1], L, pu, ndim, op, dry=False)
    return info


def _thick_with_nz(osy, res, what, plot, req, dg, P2, n_, centres, half, dz_sp, nz, L, pu, ndim, op, dry):
    ny, nx = P2.shape[:2]
    dzs = dz_sp / nz
    zc = -0.5 * dz_sp + (np.arange(nz) + 0.5) * dzs
    npix = ny * nx
    if ndim == 3:
        P = (P2.reshape(npix, 1, ndim) + zc[None, :, None] * n_[None, None, :ndim]).reshape(-1, ndim)
    else:
        P = np.repeat(P2.reshape(npix, 1, ndim), nz, axis=1).reshape(-1, ndim)
    strict, ncand, cand = mo.locate(P, centres, half, tau_rel=1e-9, tau_abs=1e-12 * L)
    cols = strict.reshape(npix, nz).copy()
    amb = ((strict < 0) & (ncand > 0)).reshape(npix, nz)
    pixel_ok = ~amb.any(axis=1)                        # pixels whose whole column is unambiguous
    if not dry:
        res.count("pixels-judged", int(pixel_ok.sum()))
        res.count("column-samples", int(pixel_ok.sum()) * nz)
    fn = getattr(np, op)
    import warnings
    problems = []
    for lay in plot.layers:
        name = lay["name"]
        data = lay["data"]
        if data.ndim == 3:
            continue    # vector layers in thick maps: components are reduced like scalars; judged via scalar layers
        src = dg[name]
        cellvals = np.asarray(src.norm.values if type(src).__name__ == "Vector" else src.values, dtype=float)
        col = _column_values(cols, cellvals)
        with np.errstate(all="ignore"), warnings.catch_warnings():
            warnings.simplefilter("ignore")
            exp = fn(col, axis=1)
        if op in ("sum", "nansum"):
            exp = exp * dzs
        mask = np.ma.getmaskarray(data).reshape(-1)
        vals = np.ma.getdata(data).reshape(-1)
        if mask.shape[0] != npix:
            problems.append(("data-shape", f"layer {name!r} data shape {data.shape}"))
            break
        exp_mask = np.isnan(exp)
        # the mask is taken from the NaNs of the reduced column (numpy semantics of the chosen reduction)
        wrong_mask = pixel_ok & (mask != exp_mask)
        if wrong_mask.any():
            k = int(np.argwhere(wrong_mask)[0][0])
            kind = "pixel-masked-inside-slab" if mask[k] else "pixel-unmasked-missing-column"
            nmiss = int((cols[k] < 0).sum())
            problems.append((kind, f"layer {name!r}: {int(wrong_mask.sum())} of {int(pixel_ok.sum())} pixels have the wrong mask "
                             f"(first j={k // nx}, i={k % nx}: masked={bool(mask[k])}, np.{op} of its {nz}-sample column "
                             f"({nmiss} missing) = {exp[k]!r})"))
            break
        good = pixel_ok & ~exp_mask
        tol = 1e-9 * np.abs(exp) + 1e-9 * np.nanmax(np.abs(cellvals)) * (dzs if op in ("sum", "nansum") else 1.0) * 1e-3
        bad = good & (np.abs(vals - exp) > tol)
        if bad.any():
            k = int(np.argwhere(bad)[0][0])
            mech = "column-reduction-wrong"
            if op in ("sum", "nansum") and abs(vals[k] * dzs - exp[k] * 1.0) < 1e-6 * abs(exp[k]) * dzs:
                mech = "depth-step-factor"
            problems.append((mech, f"layer {name!r}: {int(bad.sum())} pixels differ from np.{op} over the sampled column "
                             f"(nz={nz}, step {dzs!r}); first j={k // nx}, i={k % nx}: got {vals[k]!r}, expected {exp[k]!r}"))
            break
        # unit
        s_src, d_src = scale_dims(src.unit)
        s_len, d_len = scale_dims(osy.units(pu))
        s_got, d_got = scale_dims(lay["unit"])
        if op in ("sum", "nansum"):
            ok_unit = dims_close(d_got, dims_mul(d_src, d_len)) and abs(s_got - s_src * s_len) <= 1e-12 * s_src * s_len
        else:
            ok_unit = dims_close(d_got, d_src) and abs(s_got - s_src) <= 1e-12 * s_src
        if not ok_unit:
            problems.append(("thick-unit-wrong", f"layer {name!r}: unit {lay['unit']!s} for operation {op} on {src.unit!s} "
                             f"with lengths in {pu}"))
            break
    if dry:
        return not problems
    for mech, msg in problems:
        res.violate(mech, f"{what}: {msg}")
    return not problems
