"""Environment handling shared by the driver and the workers.

* the tree under observation is ${OSYRIS_SRC:-/repo/src}; it is put first on
  PYTHONPATH of every worker, and the worker asserts that `osyris` really came
  from there;
* every worker gets a fresh $HOME so that osyris' config copy
  (~/.osyris/config_osyris.py) is made from the tree under observation;
* third-party monitor libraries (icontract) live in /verif/.deps (git-ignored,
  installed offline from the wheelhouse by setup.sh or lazily here).
"""
import hashlib
import os
import subprocess
import sys

VERIF = os.path.dirname(os.path.dirname(os.path.abspath(__file__)))
DEPS = os.path.join(VERIF, ".deps")
WHEELS = "/opt/veriftools/wheels"
PYTHON = "/venv/bin/python"


def src_root():
    return os.path.realpath(os.environ.get("OSYRIS_SRC", "/repo/src"))


def tree_info():
    """Identify the tree under observation (written into every evidence file)."""
    root = src_root()
    h = hashlib.sha256()
    nfiles = 0
    for dirpath, dirnames, filenames in sorted(os.walk(os.path.join(root, "osyris"))):
        dirnames.sort()
        for fn in sorted(filenames):
            if fn.endswith(".py"):
                p = os.path.join(dirpath, fn)
                h.update(os.path.relpath(p, root).encode())
                with open(p, "rb") as f:
                    h.update(f.read())
                nfiles += 1
    info = {"root": root, "source_sha256": h.hexdigest(), "source_files": nfiles}
    repo = os.path.dirname(root)
    try:
        head = subprocess.run(
            ["git", "-C", repo, "rev-parse", "HEAD"],
            capture_output=True, text=True, timeout=20,
        )
        if head.returncode == 0:
            info["git_head"] = head.stdout.strip()
            st = subprocess.run(
                ["git", "-C", repo, "status", "--porcelain", "--untracked-files=no"],
                capture_output=True, text=True, timeout=20,
            )
            info["git_dirty"] = bool(st.stdout.strip())
    except Exception:  # git missing / not a repository: the hash above identifies the tree
        pass
    return info


def ensure_deps(verbose=False):
    """Install icontract into /verif/.deps from the offline wheelhouse if absent."""
    marker = os.path.join(DEPS, "icontract", "__init__.py")
    if os.path.exists(marker):
        return True
    os.makedirs(DEPS, exist_ok=True)
    cmd = [
        PYTHON, "-m", "pip", "install", "--quiet", "--no-index",
        "--find-links", WHEELS, "--target", DEPS, "icontract",
    ]
    r = subprocess.run(cmd, capture_output=True, text=True)
    if verbose or r.returncode != 0:
        sys.stderr.write(r.stdout + r.stderr)
    return os.path.exists(marker)


def worker_env(home, extra=None):
    env = dict(os.environ)
    env.update(
        HOME=home,
        PYTHONPATH=os.pathsep.join([src_root(), VERIF, DEPS]),
        PYTHONDONTWRITEBYTECODE="1",
        PYTHONHASHSEED="0",
        MPLBACKEND="Agg",
        MPLCONFIGDIR=os.path.join(home, ".mpl"),
        OSYRIS_VERIF="1",
        OSYRIS_SRC=src_root(),
        NUMBA_CACHE_DIR=os.path.join(home, ".numba"),
    )
    env.setdefault("NUMBA_THREADING_LAYER", "omp")
    if extra:
        env.update({k: str(v) for k, v in extra.items()})
    return env


def import_osyris():
    """Import osyris in a worker and check that it is the tree under observation."""
    root = src_root()
    if sys.path[0] != root:
        sys.path.insert(0, root)
    import osyris  # noqa: E402

    got = os.path.realpath(osyris.__file__)
    if not got.startswith(root + os.sep):
        raise RuntimeError(f"osyris imported from {got}, expected under {root}")
    return osyris
