"""E-UNITS: the oracle's view of physical quantities.

A quantity is (values in CGS base units as longdouble, dimension vector).  The
scale/dimension of a pint Unit is obtained from pint's own reduction to base
units (pint is trusted; osyris' use of it is what is monitored).  The values of
the units osyris *defines itself* (M_sun ...) are additionally compared with an
independent reference table (C08), so a wrong constant cannot hide behind the
live registry.
"""
import numpy as np

LD = np.longdouble

# spelling -> family.  Only these spellings are handed to osyris.  Each of the larger families contains pairs of
# units whose ratio is graded towards 1 (1 +- 1e-2, 1e-3, 1e-5, 2e-6, 1e-7): "the exact ratio of the units" must not
# be confused with 1 however close it is (survey_foot/foot, torr/mmHg, tropical/gregorian year, Btu_it/Btu_iso ...).
FAMILIES = {
    "length": ["cm", "m", "km", "au", "pc", "R_sun", "R_earth", "R_jup", "mm", "kpc",
               "foot", "survey_foot", "angstrom", "angstrom_star"],
    "mass": ["g", "kg", "M_sun", "M_earth", "M_jup"],
    "time": ["s", "yr", "kyr", "Myr", "day", "tropical_year", "gregorian_year", "sidereal_year", "sidereal_day"],
    "velocity": ["cm/s", "km/s", "m/s", "au/yr", "pc/Myr"],
    "density": ["g/cm**3", "kg/m**3", "M_sun/pc**3"],
    "energy": ["erg", "J", "eV", "Btu_it", "Btu_iso", "cal", "cal_it"],
    "luminosity": ["erg/s", "W", "L_sun", "L_bol0"],
    "pressure": ["erg/cm**3", "J/m**3", "torr", "mmHg", "atm", "bar"],
    "temperature": ["K"],
    "dimensionless": ["", "dimensionless", "percent", "ppm", "deg", "cm/m"],   # incl. scaled dimensionless units
    "magnetic": ["G"],
}
FAMILY_NAMES = sorted(FAMILIES)

# Accepted reference values (CGS) of the units/constants osyris defines.
# IAU 2015 nominal values / CODATA; tolerance 5e-4 separates any accepted
# literature value from a digit, exponent or unit slip.
REFERENCE_CGS = {
    "M_sun": (1.98841e33, {"gram": 1}),
    "M_earth": (5.9722e27, {"gram": 1}),
    "M_jup": (1.89813e30, {"gram": 1}),
    "R_sun": (6.957e10, {"centimeter": 1}),
    "R_earth": (6.3781e8, {"centimeter": 1}),
    "R_jup": (7.1492e9, {"centimeter": 1}),
    "L_sun": (3.828e33, {"gram": 1, "centimeter": 2, "second": -3}),
    "L_bol0": (3.0128e35, {"gram": 1, "centimeter": 2, "second": -3}),
    "ar": (7.5657e-15, {"gram": 1, "centimeter": -1, "second": -2, "kelvin": -4}),
}
REFERENCE_RTOL = 5e-4
ALIASES = {
    "M_sun": ["solar_mass", "M_sol"],
    "M_earth": ["earth_mass"],
    "M_jup": ["jupiter_mass"],
    "R_sun": ["solar_radius", "R_sol"],
    "R_earth": ["earth_radius"],
    "R_jup": ["jupiter_radius"],
    "L_sun": ["solar_luminosity", "L_sol"],
    "L_bol0": ["bolometric_luminosity"],
    "ar": ["radiation_constant"],
}

_cache = {}


def scale_dims(unit):
    """pint Unit -> (scale to CGS base as float, dims as sorted tuple)."""
    key = unit
    try:
        hit = _cache.get(key)
    except TypeError:
        hit = None
    if hit is not None:
        return hit
    q = (1.0 * unit).to_base_units()
    # pint treats the radian as a dimensionless base unit: it carries no dimension here either
    dims = tuple(sorted((k, round(float(v), 9)) for k, v in q.units._units.items() if v != 0 and k != "radian"))
    out = (float(q.magnitude), dims)
    try:
        _cache[key] = out
    except TypeError:
        pass
    return out


def dims_mul(d1, d2, sign=1):
    d = dict(d1)
    for k, v in d2:
        d[k] = d.get(k, 0) + sign * v
    return tuple(sorted((k, round(v, 9)) for k, v in d.items() if abs(v) > 1e-12))


def dims_pow(d, p):
    return tuple(sorted((k, round(v * p, 9)) for k, v in d if abs(v * p) > 1e-12))


def dims_close(d1, d2):
    a, b = dict(d1), dict(d2)
    return all(abs(a.get(k, 0) - b.get(k, 0)) < 1e-6 for k in set(a) | set(b))


class Q:
    """Oracle quantity: values in CGS base units (longdouble) + dimension vector."""

    __slots__ = ("v", "dims")

    def __init__(self, v, dims):
        self.v = np.asarray(v, dtype=LD)
        self.dims = dims

    @classmethod
    def of(cls, values, unit):
        s, d = scale_dims(unit)
        return cls(np.asarray(values, dtype=LD) * LD(s), d)


def rtol_for(*dtypes):
    """Relative tolerance: 64 ulp of the coarsest floating dtype involved (+ margin
    for the float64 conversion factor)."""
    eps = 2.3e-16
    for dt in dtypes:
        dt = np.dtype(dt)
        if dt.kind == "f":
            eps = max(eps, float(np.finfo(dt).eps))
    return 64 * eps + 1e-13


def compare_quantity(values, unit, expected, rtol, cond=None):
    """Compare an observed (values, pint unit) with the oracle quantity `expected`.

    Returns None if they agree, otherwise a short description.  `cond` is an
    optional array (base units) added to |expected| when scaling the tolerance
    (conditioning of a-b)."""
    s, d = scale_dims(unit)
    if not dims_close(d, expected.dims):
        return f"dimension {dict(d)} != expected {dict(expected.dims)}"
    got = np.asarray(values, dtype=LD) * LD(s)
    exp = expected.v
    try:
        got_b, exp_b = np.broadcast_arrays(got, exp)
    except ValueError:
        return f"shape {got.shape} not broadcastable with expected {exp.shape}"
    if got.shape != exp_b.shape and got.shape != exp.shape:
        return f"shape {got.shape} != expected {exp.shape}"
    scale = np.abs(exp_b)
    if cond is not None:
        scale = scale + np.abs(np.asarray(cond, dtype=LD))
    with np.errstate(invalid="ignore"):
        both_nan = np.isnan(got_b) & np.isnan(exp_b)
        same_inf = np.isinf(got_b) & np.isinf(exp_b) & (np.sign(got_b) == np.sign(exp_b))
        ok = np.abs(got_b - exp_b) <= LD(rtol) * scale
    ok = ok | both_nan | same_inf
    if np.all(ok):
        return None
    bad = np.argwhere(~ok)
    i = tuple(bad[0])
    return (f"{len(bad)} of {ok.size} elements differ; first at {i}: got {float(got_b[i])!r} "
            f"expected {float(exp_b[i])!r} (CGS base units)")
