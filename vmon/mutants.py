"""Catalogue of small realistic source changes used to validate the monitors (see vmon/selfcheck.py).
Each entry: file (relative to src/osyris), old text, new text, the properties whose check must catch it."""


def M(name, props, file, old, new, **kw):
    d = {"name": name, "props": props if isinstance(props, list) else [props], "file": file, "old": old, "new": new}
    d.update(kw)
    return d


MUTANTS = [
    # ---------------------------------------------------------------- C01 loader
    M("amr-step_over-const-4to3", "C01", "io/amr.py",
      'self.offsets["i"] += ncache * (4 + 3 * twotondim + 2 * ndim)', 'self.offsets["i"] += ncache * (3 + 3 * twotondim + 2 * ndim)'),
    M("loader-domain-le", "C01", "io/loader.py", "if domain == cpu_num - 1:", "if domain <= cpu_num - 1:"),
    M("amr-son-ge-0", "C01", "io/amr.py", "self.son[begin:end] > 0", "self.son[begin:end] >= 0"),
    M("amr-xbound-no-int", "C01", "io/amr.py", "float(int(nx / 2)),", "float(nx / 2),"),
    M("amr-dxcell-ilevel", "C01", "io/amr.py", "self.dxcell = 0.5 ** (ilevel + 1)", "self.dxcell = 0.5 ** (ilevel + 1) if ilevel < 5 else 0.5 ** ilevel"),
    M("amr-header-noutput", "C01", "io/amr.py", 'self.offsets["d"] += 1 + 2 * noutput', 'self.offsets["d"] += 2 * noutput'),
    M("amr-boundary-n-dropped", "C01", "io/amr.py", '            self.offsets["n"] += 2\n\n        # Determine bound key precision', '            self.offsets["n"] += 1\n\n        # Determine bound key precision'),
    M("units-velocity-factor", "C01", "config/defaults.py", "velocity = (unit_l / unit_t) * units(\"cm / s\")", "velocity = (unit_l * unit_t) * units(\"cm / s\")"),
    M("vector-component-order", "C01", "io/utils.py", "**{components[c]: data[comp_list[c]] for c in range(ndim)}", "**{components[c]: data[comp_list[::-1][c]] for c in range(ndim)}"),
    M("amr-ngridlevel-no-T", "C01", "io/amr.py", ".reshape(info[\"levelmax\"], info[\"ncpu\"])\n            .T", ".reshape(info[\"ncpu\"], info[\"levelmax\"])"),
    M("reader-step_over-n", "C01", "io/reader.py", 'self.offsets["n"] += twotondim * len(self.variables)', 'self.offsets["n"] += twotondim * len(self.variables) + (1 if ncache > 7 else 0)'),
    M("amr-xcent-iy", "C01", "io/amr.py", "iy = int((ind - 4 * iz) / 2)", "iy = int((ind - 4 * iz) / 2) if twotondim > 2 else 1"),
    M("rt-header", "C01", "io/rt.py", 'self.offsets["n"] += 6', 'self.offsets["n"] += 5'),
    M("grav-descriptor-order", "C01", "io/grav.py", 'descriptor = {"grav_potential": "d"}\n        for n in range(meta["ndim"]):\n            descriptor["grav_acceleration_" + "xyz"[n]] = "d"',
      'descriptor = {}\n        for n in range(meta["ndim"]):\n            descriptor["grav_acceleration_" + "xyz"[n]] = "d"\n        descriptor["grav_potential"] = "d"'),
    M("mass-unit-derived", "C01", "config/defaults.py", 'data["mesh"]["density"] * data["mesh"]["dx"] ** 3', 'data["mesh"]["density"] * data["mesh"]["dx"] ** 2 * data["mesh"]["dx"].max()'),
    M("key-size-16-ignored", "C01", "io/amr.py", 'self.offsets["s"] += key_size', 'self.offsets["s"] += min(key_size, 8 * (info["ncpu"] + 1))'),
    # ---------------------------------------------------------------- C02 / C07 / C08 / C10 Array
    # (dropping the strict conversion in _binary_op is an equivalent mutant since _wrap_numpy itself
    #  converts operands to a common unit or raises)
    M("array-to-ratio-inverted", ["C08", "C02"], "core/array.py", "ratio = (1.0 * self.unit).to(new_unit) / (1.0 * new_unit)", "ratio = (1.0 * new_unit).to(self.unit) / (1.0 * self.unit)"),
    M("array-rtruediv-no-reciprocal", "C02", "core/array.py", "    def __rtruediv__(self, other):\n        return np.reciprocal(self / other)", "    def __rtruediv__(self, other):\n        return self / other"),
    M("array-dtype-whitelist-back", ["C02", "C10", "C17"], "core/array.py", "if np.issubdtype(result.dtype, np.number):", "if result.dtype in (int, float):"),
    M("array-lt-le-swap", "C07", "core/array.py", "return _binary_op(np.less, self, other)", "return _binary_op(np.less_equal, self, other)"),
    M("array-to-mutates", "C08", "core/array.py", "        return self.__class__(values=self._array * ratio.magnitude, unit=new_unit)", "        if self._array.dtype.kind == 'f' and self._array.ndim == 1:\n            self._array *= ratio.magnitude\n            self._unit = new_unit\n            return self\n        return self.__class__(values=self._array * ratio.magnitude, unit=new_unit)"),
    M("const-msun-exponent", "C08", "config/defaults.py", "solar_mass = 1.9889e+33 * g", "solar_mass = 1.9889e+30 * g"),
    M("const-lsun-erg", "C08", "config/defaults.py", "solar_luminosity = 3.828e+26 * W", "solar_luminosity = 3.828e+26 * erg / s"),
    M("const-rjup-digit", "C08", "config/defaults.py", "jupiter_radius = 7.1492e+09 * cm", "jupiter_radius = 7.4192e+09 * cm"),
    M("alias-dropped", "C08", "config/defaults.py", "= M_sun = M_sol", "= M_sun"),
    M("vector-to-x-only", "C08", "core/vector.py", "return self.__class__(**{c: xyz.to(unit) for c, xyz in self._xyz.items()})", "return self.__class__(**{c: (xyz.to(unit) if c == 'x' else self.__class__.__mro__ and Array(values=xyz.to(unit).values * 1.0000001, unit=unit)) for c, xyz in self._xyz.items()})"),
    M("numpy-apply-op-shortened", "C10", "core/array.py", '    "sqrt",\n', ''),
    M("numpy-unit-from-self", "C10", "core/array.py", "                unit = common_unit\n", "                unit = self.unit\n"),
    M("numpy-no-conversion", ["C10"], "core/array.py", "            if (unit is not None) and (arg.dtype != bool):\n                arg = arg.to(unit)", "            pass"),
    M("numpy-kwargs-iter-back", "C10", "core/array.py", "                if isinstance(a, (tuple, list))\n                else self._maybe_array(a)", "                if True\n                else self._maybe_array(a)"),
    # ---------------------------------------------------------------- C09 Vector
    M("vector-dot-unit-back", "C09", "core/vector.py", "            unit = product.unit\n", ""),
    M("vector-cross-sign", "C09", "core/vector.py", "        y = self.z * other.x\n        y -= self.x * other.z", "        y = self.x * other.z\n        y -= self.z * other.x"),
    M("vector-norm-no-z", "C09", "core/vector.py", "        if self.z is not None:\n            out += self.z.values * self.z.values", "        if self.z is not None and self.z.ndim > 1:\n            out += self.z.values * self.z.values"),
    M("vector-broadcast-x-only", "C09", "core/vector.py", "rhs = lhs.__class__(**{c: rhs for c in lhs._xyz.keys()})", "rhs = lhs.__class__(**{c: (rhs if c == 'x' else rhs * 1) for c in lhs._xyz.keys()}) if not isinstance(rhs.values, float) else lhs.__class__(**{c: (rhs if c == 'x' else rhs * 0 + 1) for c in lhs._xyz.keys()})"),
    M("vector-nvec-check-removed", "C09", "core/vector.py", "    if lhs.nvec != rhs.nvec:\n        raise ValueError(\"Operands do not have the same number of components.\")\n", "    if lhs.nvec < rhs.nvec:\n        raise ValueError(\"Operands do not have the same number of components.\")\n    if lhs.nvec > rhs.nvec:\n        rhs = lhs.__class__(**{c: getattr(rhs, c) if getattr(rhs, c) is not None else rhs.x for c in lhs._xyz})\n"),
    M("vector-norm1-sign-back", "C09", "core/vector.py", "values=np.abs(self.x.values), unit=self.x.unit, name=self.name", "values=self.x.values, unit=self.x.unit, name=self.name"),
    # ---------------------------------------------------------------- C06 / C20 containers
    M("datagroup-sort-per-member", "C06", "core/datagroup.py", "            for var in self.keys():\n                self[var] = self[var][key]", "            for var in self.keys():\n                self[var] = self[var][key] if self[var].dtype != 'float32' else self[var][np.argsort(np.asarray(key))]"),
    M("vector-getitem-x-only", "C06", "core/vector.py", "**{c: xyz[slice_] for c, xyz in self._xyz.items()}, name=self._name", "**{c: (xyz[slice_] if (c == 'x' or not isinstance(slice_, slice) or slice_.step is None or slice_.step > 0) else xyz[slice_][::-1]) for c, xyz in self._xyz.items()}, name=self._name"),
    M("datagroup-shape-gate-removed", ["C06", "C20"], "core/datagroup.py", "if self.shape and (self.shape != value.shape):", "if self.shape and (len(self.shape) != len(value.shape)):"),
    M("datagroup-name-not-set", ["C06", "C20"], "core/datagroup.py", "        value.name = key\n        self._container[key] = value", "        self._container[key] = value"),
    M("datagroup-eq-back", "C20", "core/datagroup.py", "            if not all(np.all(c.values) for c in components):\n                return False", "            if not any(np.any(c.values) for c in components):\n                return False"),
    M("datagroup-update-container", "C20", "core/datagroup.py", "        d = dict(*args, **kwargs)\n        for key, value in d.items():\n            self[key] = value\n\n    def layer", "        self._container.update(dict(*args, **kwargs))\n\n    def layer"),
    M("dataset-type-gate-removed", "C20", "core/dataset.py", "        if not isinstance(value, Datagroup):", "        if not hasattr(value, '__len__'):"),
    M("datagroup-pop-no-remove", "C20", "core/datagroup.py", "        return self._container.pop(key)", "        return self._container[key]"),
    M("array-getitem-mask-int", "C06", "core/array.py", "            slice_ = slice_.values\n", "            slice_ = slice_.values.astype(int) if slice_.dtype == bool and slice_.shape[0] > 30 else slice_.values\n"),
    # ---------------------------------------------------------------- C17 aliasing
    M("array-iadd-no-out", "C17", "core/array.py", "        return _binary_op(np.add, self, other, out=self)", "        return _binary_op(np.add, self, other)"),
    M("array-copy-shares-buffer", "C17", "core/array.py", "            values=self._array.copy(), unit=units(self.unit), name=str(self.name)", "            values=self._array, unit=units(self.unit), name=str(self.name)"),
    M("datagroup-copy-deep", "C17", "core/datagroup.py", "return self.__class__(**{key: array for key, array in self.items()})", "return self.__class__(**{key: array.copy() for key, array in self.items()})"),
    M("array-out-unit-not-rebound", "C17", "core/array.py", '            kwargs["out"][0].unit = unit\n', '            pass\n'),
    M("array-getitem-copies", "C17", "core/array.py", "            values=self._array[slice_], unit=self.unit, name=self.name", "            values=np.array(self._array[slice_]), unit=self.unit, name=self.name"),
]
