"""E-RAMSES: writer of well-formed synthetic RAMSES outputs driven by an explicit model.

spec (JSON-able dict)  --build()-->  Model (oct forest, owners, per-file oct lists)
                       --write()-->  output_NNNNN/ directory + record map per file
                       --expected_*()--> what a correct loader must return (code units, factors apart)

Format notes: DESIGN.md appendix A (from RAMSES output_amr/hydro/poisson/rt/part.f90).
Every stored number is unique and decodable: value = ((uid*8+ind)*64+ivar)*4+kind + 0.25 for the
owner's copy, its negative for a ghost copy held by another CPU's file, so a misread names its origin.
"""
import os
import struct

import numpy as np

from .hilbert_ref import hilbert2d, hilbert3d

KIND = {"hydro": 0, "grav": 1, "rt": 2}

HYDRO_SETS = [
    ["density", "velocity_x", "velocity_y", "velocity_z", "pressure"],
    ["density", "velocity_x", "velocity_y", "velocity_z", "B_x_left", "B_y_left", "B_z_left",
     "B_x_right", "B_y_right", "B_z_right", "thermal_pressure", "radiative_energy_1", "temperature"],
    ["density", "momentum_x", "momentum_y", "momentum_z", "internal_energy", "scalar_01", "metallicity"],
    ["density", "velocity_x", "velocity_y", "pressure", "extra", "max_x", "x_hii"],
    ["velocity_x", "density"],
    ["density", "velocity_z", "velocity_x", "velocity_y", "thermal_pressure", "passive_x", "passive_y"],
    # component letter followed by ANOTHER x later in the name; two families sharing a stem
    ["density", "momentum_x_flux", "momentum_y_flux", "momentum_z_flux", "B_x_max", "B_y_max", "B_z_max", "pressure",
     "vx_extra", "vy_extra", "vz_extra"],
]
RT_SETS = [
    ["photon_density_1", "photon_flux_1_x", "photon_flux_1_y", "photon_flux_1_z"],
    ["photon_density_1", "photon_flux_1_x", "photon_flux_1_y", "photon_flux_1_z",
     "photon_density_2", "photon_flux_2_x", "photon_flux_2_y", "photon_flux_2_z"],
    ["photon_density_1", "photon_density_2"],
]
PART_SETS = [
    [("position_x", "d"), ("position_y", "d"), ("position_z", "d"), ("velocity_x", "d"), ("velocity_y", "d"),
     ("velocity_z", "d"), ("mass", "d"), ("identity", "i"), ("levelp", "i"), ("family", "b"), ("tag", "b")],
    [("position_x", "d"), ("position_y", "d"), ("position_z", "d"), ("mass", "d"), ("identity", "i"),
     ("birth_time", "d"), ("metallicity", "d"), ("family", "b")],
    [("identity", "i"), ("family", "b"), ("mass", "d"), ("position_x", "d"), ("position_y", "d"),
     ("position_z", "d"), ("levelp", "i")],
    [("mass", "d"), ("identity", "i")],
]


# ----------------------------------------------------------------------------- spec
def default_spec(**kw):
    spec = {
        "nout": 1, "ndim": 3, "ncpu": 1, "levelmin": 1, "levelmax": 3, "nboundary": 0, "nxyz": [1, 1, 1],
        "boxlen": 1.0, "unit_d": 1.0, "unit_l": 1.0, "unit_t": 1.0, "time": 0.5, "noutput": 3,
        "key_bytes": 8, "ordering": "hilbert", "tree_seed": 0, "refine_prob": 0.4, "max_octs": 600,
        "style": "random", "ghost_prob": 0.3, "hydro": HYDRO_SETS[0], "grav": False, "rt": None,
        "part": None, "sink": None, "bound_style": "octs", "decoys": [],
        "gamma": 1.4, "cap_level": None,
    }
    spec.update(kw)
    return spec


def random_spec(rng, ndim=None, **kw):
    ndim = int(ndim if ndim is not None else rng.choice([1, 2, 3], p=[0.15, 0.25, 0.6]))
    levelmin = int(rng.integers(1, 4))
    levelmax = int(rng.integers(levelmin, levelmin + 5))
    nboundary = int(rng.choice([0, 0, 0, 1, 2, 4, 6]))
    nxyz = [1, 1, 1]
    if nboundary:
        for d in range(ndim):
            if rng.random() < 0.6:
                nxyz[d] = 3
        if nxyz == [1, 1, 1]:
            nxyz[int(rng.integers(0, ndim))] = 3
    hydro = list(HYDRO_SETS[int(rng.integers(0, len(HYDRO_SETS)))])
    # component names only make sense up to ndim
    hydro = _restrict_components(hydro, ndim, rng)
    spec = default_spec(
        nout=int(rng.choice([1, 2, 7, 12, 80, 123])), ndim=ndim,
        ncpu=int(rng.choice([1, 1, 2, 3, 4, 5, 8, 13, 24, 32])), levelmin=levelmin, levelmax=levelmax,
        nboundary=nboundary, nxyz=nxyz, boxlen=float(rng.choice([1.0, 2.0, 0.5, 4.0, 1.5])),
        unit_d=float(10.0 ** rng.uniform(-24, 3)), unit_l=float(10.0 ** rng.uniform(-2, 22)),
        unit_t=float(10.0 ** rng.uniform(-3, 16)), time=float(rng.uniform(0, 10)),
        noutput=int(rng.choice([1, 2, 3, 10, 11, 60])), key_bytes=int(rng.choice([8, 16])),
        ordering=str(rng.choice(["hilbert", "hilbert", "hilbert", "planar", "angular"])),
        tree_seed=int(rng.integers(0, 2**31)), refine_prob=float(rng.uniform(0.05, 0.8)),
        max_octs=int(rng.choice([40, 200, 600, 1500])),
        style=str(rng.choice(["random", "random", "needle", "uniform", "shallow"])),
        ghost_prob=float(rng.choice([0.0, 0.2, 0.6, 1.0])), hydro=hydro,
        grav=bool(rng.random() < 0.5),
        rt=(_restrict_components(list(RT_SETS[int(rng.integers(0, len(RT_SETS)))]), ndim, rng)
            if rng.random() < 0.3 else None),
        bound_style=str(rng.choice(["octs", "octs", "random", "tiny", "equal"])),
        gamma=float(rng.choice([1.4, 5.0 / 3.0])),
    )
    spec.update(kw)
    return spec


def _restrict_components(names, ndim, rng):
    out = []
    for n in names:
        drop = False
        for c, d in (("y", 2), ("z", 3)):
            if ndim < d and (n.endswith("_" + c) or ("_" + c + "_") in n):
                drop = True
        if not drop:
            out.append(n)
    if len(out) < 2:
        out = ["density", "pressure"]
    return out


# ----------------------------------------------------------------------------- model
class Oct:
    __slots__ = ("uid", "level", "centre", "sons", "owner", "boundary")

    def __init__(self, uid, level, centre):
        self.uid, self.level, self.centre = uid, level, centre
        self.sons = None       # list of child Oct or None, per cell
        self.owner = 0         # cpu number (1-based); boundary octs: ncpu + region (1-based)
        self.boundary = False


def cell_offset(ind, ndim):
    iz = ind // 4
    iy = (ind - 4 * iz) // 2
    ix = ind - 2 * iy - 4 * iz
    return (ix, iy, iz)[:ndim]


class Model:
    def __init__(self, spec):
        self.spec = spec
        self.ndim = spec["ndim"]
        self.ttd = 2 ** self.ndim
        self.octs = []          # physical-domain octs
        self.bocts = []         # boundary octs
        self.files = {}         # cpu -> {"own": {level: [oct]}, "ghost": {(level, domain): [oct]}}
        self.bound_keys = None
        self.recmap = {}        # filename -> list of (offset, payload_len, role)

    # --- tree
    def grow(self):
        sp = self.spec
        rng = np.random.default_rng(np.random.SeedSequence([sp["tree_seed"], 11]))
        ndim, lmin, lmax = self.ndim, sp["levelmin"], sp["levelmax"]
        root = Oct(0, 1, tuple([0.5] * ndim))
        self.octs = [root]
        frontier = [root]
        style = sp["style"]
        needle = tuple(rng.random(ndim))
        depth_cap = lmax if style != "shallow" else max(lmin, min(lmax, lmin + 1))
        while frontier:
            nxt = []
            for o in frontier:
                o.sons = [None] * self.ttd
                if o.level >= depth_cap:
                    continue
                for ind in range(self.ttd):
                    off = cell_offset(ind, ndim)
                    dx = 0.5 ** o.level
                    cc = tuple(o.centre[d] + (off[d] - 0.5) * dx for d in range(ndim))
                    if o.level < lmin:
                        refine = True
                    elif len(self.octs) + len(nxt) >= sp["max_octs"]:
                        refine = False
                    elif style == "uniform":
                        refine = False
                    elif style == "needle":
                        refine = all(abs(cc[d] - needle[d]) <= 0.5 * dx for d in range(ndim))
                    else:
                        refine = rng.random() < sp["refine_prob"]
                    if refine:
                        child = Oct(len(self.octs), o.level + 1, cc)
                        self.octs.append(child)
                        o.sons[ind] = child
                        nxt.append(child)
            frontier = nxt

    # --- ownership
    def assign(self):
        sp = self.spec
        rng = np.random.default_rng(np.random.SeedSequence([sp["tree_seed"], 12]))
        ncpu, ndim = sp["ncpu"], self.ndim
        bits = sp["levelmax"] + 1
        cen = np.array([o.centre for o in self.octs])
        ii = np.minimum((cen * 2 ** bits).astype(np.int64), 2 ** bits - 1)
        if ndim == 3:
            keys = np.array([int(k) for k in np.atleast_1d(hilbert3d(ii[:, 0], ii[:, 1], ii[:, 2], bits))], dtype=object)
        elif ndim == 2:
            keys = np.array([int(k) for k in hilbert2d(ii[:, 0], ii[:, 1], bits)], dtype=object)
        else:
            keys = np.array([int(k) for k in ii[:, 0]], dtype=object)
        total = 2 ** (bits * ndim)
        self.keys = keys
        if sp["ordering"] == "hilbert":
            style = sp["bound_style"]
            if style == "equal":
                cuts = [total * (c + 1) // ncpu for c in range(ncpu - 1)]
            elif style == "random":
                cuts = sorted(int(rng.integers(0, 2 ** 62)) % total for _ in range(ncpu - 1))
            elif style == "tiny":
                # most CPUs get a tiny key range next to an oct key, one gets the rest
                base = [int(k) for k in rng.choice(keys, size=ncpu - 1)] if ncpu > 1 else []
                cuts = sorted(min(total - 1, b + int(rng.integers(0, 3))) for b in base)
            else:  # cut points adversarially placed at / next to oct keys
                base = [int(k) for k in rng.choice(keys, size=ncpu - 1)] if ncpu > 1 else []
                cuts = sorted(max(0, min(total, b + int(rng.integers(-1, 2)))) for b in base)
            self.bound_keys = [0] + cuts + [total]
            bk = np.array(self.bound_keys[1:-1], dtype=object)
            for o, k in zip(self.octs, keys):
                # owner c (1-based) iff bound[c-1] <= key < bound[c]
                o.owner = 1 + int(sum(1 for b in bk if b <= k))
        else:
            self.bound_keys = None
            for o in self.octs:
                o.owner = int(rng.integers(1, ncpu + 1))
            if sp["ordering"] == "planar":      # slabs along x
                for o in self.octs:
                    o.owner = 1 + min(ncpu - 1, int(o.centre[0] * ncpu))
        # boundary octs: a few per region and level, outside the physical domain
        self.bocts = []
        uid = 10_000_000
        for ib in range(sp["nboundary"]):
            for lev in range(1, sp["levelmax"] + 1):
                if rng.random() < 0.5:
                    continue
                for _ in range(int(rng.integers(1, 4))):
                    c = [float(rng.random()) for _ in range(ndim)]
                    d = int(rng.integers(0, ndim))
                    c[d] = c[d] + (1.0 if rng.random() < 0.5 else -1.0)
                    b = Oct(uid, lev, tuple(c))
                    uid += 1
                    b.sons = [None] * self.ttd
                    b.owner = ncpu + ib + 1
                    b.boundary = True
                    self.bocts.append(b)

    # --- which octs each file lists
    def distribute(self):
        sp = self.spec
        rng = np.random.default_rng(np.random.SeedSequence([sp["tree_seed"], 13]))
        ncpu = sp["ncpu"]
        by_owner = {}
        for o in self.octs:
            by_owner.setdefault(o.owner, []).append(o)
        for cpu in range(1, ncpu + 1):
            blocks = {}
            for o in by_owner.get(cpu, []):
                blocks.setdefault((o.level, cpu), []).append(o)
            # ghosts: octs of other CPUs that this file also lists (reception grids)
            for other in range(1, ncpu + 1):
                if other == cpu:
                    continue
                for o in by_owner.get(other, []):
                    if rng.random() < sp["ghost_prob"] * 0.5:
                        blocks.setdefault((o.level, other), []).append(o)
            for b in self.bocts:
                if rng.random() < 0.7:
                    blocks.setdefault((b.level, b.owner), []).append(b)
            for k in blocks:
                perm = rng.permutation(len(blocks[k]))
                blocks[k] = [blocks[k][i] for i in perm]
            self.files[cpu] = blocks

    # --- stored numbers
    def value(self, o, ind, ivar, kind, cpu_file):
        v = float(((o.uid % 1_000_000) * 8 + ind) * 64 + ivar) * 4 + KIND[kind] + 0.25
        if o.boundary:
            return -(v + 0.5)
        if o.owner != cpu_file:
            return -v           # a ghost copy: never to be returned
        return v


def build(spec):
    m = Model(spec)
    m.grow()
    m.assign()
    m.distribute()
    return m


# ----------------------------------------------------------------------------- writing
class RecFile:
    def __init__(self, path):
        self.path = path
        self.buf = bytearray()
        self.recs = []

    def rec(self, payload, role):
        n = len(payload)
        self.recs.append((len(self.buf) + 4, n, role))
        self.buf += struct.pack("<i", n) + payload + struct.pack("<i", n)

    def ints(self, vals, role):
        self.rec(np.asarray(vals, dtype="<i4").tobytes(), role)

    def dbls(self, vals, role):
        self.rec(np.asarray(vals, dtype="<f8").tobytes(), role)

    def close(self):
        with open(self.path, "wb") as f:
            f.write(self.buf)
        return self.recs


def outdir(path, nout):
    return os.path.join(path, "output_" + str(nout).zfill(5))


def write(model, path):
    sp = model.spec
    d = outdir(path, sp["nout"])
    os.makedirs(d, exist_ok=True)
    tag = str(sp["nout"]).zfill(5)
    for dec in sp.get("decoys", []):
        os.makedirs(os.path.join(path, dec), exist_ok=True)
    _write_info(model, os.path.join(d, f"info_{tag}.txt"))
    # (RAMSES itself writes every hydro variable as a double; the descriptor format has a type column, which osyris
    #  honours - spec["hydro_types"] = {name: "i"} stores a variable as int32, used by C13 on single-CPU outputs only)
    ht = sp.get("hydro_types") or {}
    _write_descriptor(os.path.join(d, "hydro_file_descriptor.txt"), [(n, ht.get(n, "d")) for n in sp["hydro"]])
    if sp["rt"]:
        _write_descriptor(os.path.join(d, "rt_file_descriptor.txt"), [(n, "d") for n in sp["rt"]])
    if sp["part"]:
        _write_descriptor(os.path.join(d, "part_file_descriptor.txt"), sp["part"]["descriptor"])
    for cpu in range(1, sp["ncpu"] + 1):
        suf = f"_{tag}.out{str(cpu).zfill(5)}"
        model.recmap["amr" + suf] = _write_amr(model, cpu, os.path.join(d, "amr" + suf))
        model.recmap["hydro" + suf] = _write_cells(model, cpu, os.path.join(d, "hydro" + suf), "hydro")
        if sp["grav"]:
            model.recmap["grav" + suf] = _write_cells(model, cpu, os.path.join(d, "grav" + suf), "grav")
        if sp["rt"]:
            model.recmap["rt" + suf] = _write_cells(model, cpu, os.path.join(d, "rt" + suf), "rt")
        if sp["part"]:
            model.recmap["part" + suf] = _write_part(model, cpu, os.path.join(d, "part" + suf))
    if sp["sink"] is not None:
        _write_sink(model, os.path.join(d, f"sink_{tag}.csv"))
    return d


def _write_info(model, fname):
    sp = model.spec
    lines = [
        f"ncpu        = {sp['ncpu']:10d}",
        f"ndim        = {sp['ndim']:10d}",
        f"levelmin    = {sp['levelmin']:10d}",
        f"levelmax    = {sp['levelmax']:10d}",
        f"ngridmax    = {100000:10d}",
        f"nstep_coarse= {17:10d}",
        "",
        f"boxlen      = {sp['boxlen']!r}",
        f"time        = {sp['time']!r}",
        "aexp        =  0.100000000000000E+01",
        "H0          =  0.100000000000000E+01",
        "omega_m     =  0.100000000000000E+01",
        "omega_l     =  0.000000000000000E+00",
        "omega_k     =  0.000000000000000E+00",
        "omega_b     =  0.450000000000000E-01",
        f"unit_l      = {sp['unit_l']!r}",
        f"unit_d      = {sp['unit_d']!r}",
        f"unit_t      = {sp['unit_t']!r}",
        "",
        f"ordering type={sp['ordering']}",
    ]
    if sp["ordering"] == "hilbert":
        lines.append("   DOMAIN   ind_min                 ind_max")
        bk = model.bound_keys
        for c in range(sp["ncpu"]):
            lines.append(f"{c + 1:8d} {float(bk[c]):23.15E} {float(bk[c + 1]):23.15E}")
    with open(fname, "w") as f:
        f.write("\n".join(lines) + "\n")


def _write_descriptor(fname, items):
    with open(fname, "w") as f:
        f.write("# version:  1\n# ivar, variable_name, variable_type\n")
        for i, (n, t) in enumerate(items):
            f.write(f"  {i + 1}, {n}, {t}\n")


def _numb(model, cpu):
    sp = model.spec
    ncpu, lmax, nb = sp["ncpu"], sp["levelmax"], sp["nboundary"]
    numbl = np.zeros((ncpu, lmax), dtype=np.int32)
    numbb = np.zeros((max(nb, 1), lmax), dtype=np.int32)
    for (lev, dom), lst in model.files[cpu].items():
        if dom <= ncpu:
            numbl[dom - 1, lev - 1] = len(lst)
        else:
            numbb[dom - ncpu - 1, lev - 1] = len(lst)
    return numbl, numbb


def _write_amr(model, cpu, fname):
    sp = model.spec
    ndim, ncpu, lmax, nb = sp["ndim"], sp["ncpu"], sp["levelmax"], sp["nboundary"]
    nx, ny, nz = sp["nxyz"]
    ncoarse = nx * ny * nz
    nout = sp["noutput"]
    f = RecFile(fname)
    f.ints([ncpu], "ncpu")
    f.ints([ndim], "ndim")
    f.ints([nx, ny, nz], "nxyz")
    f.ints([lmax], "nlevelmax")
    f.ints([100000], "ngridmax")
    f.ints([nb], "nboundary")
    f.ints([len(model.octs)], "ngrid_current")
    f.dbls([sp["boxlen"]], "boxlen")
    f.ints([nout, sp["nout"], sp["nout"] + 1], "noutput")
    f.dbls(np.linspace(0.1, 1.0, nout), "tout")
    f.dbls(np.linspace(0.1, 1.0, nout), "aout")
    f.dbls([sp["time"]], "t")
    f.dbls(0.001 * (np.arange(lmax) + 1), "dtold")
    f.dbls(0.002 * (np.arange(lmax) + 1), "dtnew")
    f.ints([17, 17], "nstep")
    f.dbls([1.0, 2.0, 3.0], "einit")
    f.dbls([1.0] * 7, "cosmo")
    f.dbls([1.0] * 5, "aexp")
    f.dbls([1.0], "mass_sph")
    f.ints(np.zeros(ncpu * lmax), "headl")
    f.ints(np.zeros(ncpu * lmax), "taill")
    numbl, numbb = _numb(model, cpu)
    f.ints(numbl.T.reshape(-1), "numbl")          # Fortran order: cpu fastest
    f.ints(np.zeros(10 * lmax), "numbtot")
    if nb > 0:
        f.ints(np.zeros(nb * lmax), "headb")
        f.ints(np.zeros(nb * lmax), "tailb")
        f.ints(numbb[:nb].T.reshape(-1), "numbb")
    f.ints([0, 0, 0, 0, 0], "free")
    f.rec((sp["ordering"].ljust(128)).encode()[:128], "ordering")
    f.rec(bytes(sp["key_bytes"] * (ncpu + 1)), "bound_key")
    f.ints(np.zeros(ncoarse), "son_coarse")
    f.ints(np.zeros(ncoarse), "flag1_coarse")
    f.ints(np.ones(ncoarse), "cpu_map_coarse")
    xb = [nx // 2, ny // 2, nz // 2]
    blocks = model.files[cpu]
    for lev in range(1, lmax + 1):
        for dom in range(1, ncpu + nb + 1):
            lst = blocks.get((lev, dom), [])
            n = len(lst)
            if n == 0:
                continue
            role = f"L{lev}D{dom}"
            f.ints([o.uid % 2_000_000_000 + 1 for o in lst], role + ":ind_grid")
            f.ints(np.zeros(n), role + ":next")
            f.ints(np.zeros(n), role + ":prev")
            for dd in range(ndim):
                f.dbls([o.centre[dd] + xb[dd] for o in lst], role + f":xg{dd}")
            f.ints(np.zeros(n), role + ":father")
            for k in range(2 * ndim):
                f.ints(np.zeros(n), role + f":nbor{k}")
            for ind in range(model.ttd):
                f.ints([(o.sons[ind].uid + 1) if (o.sons and o.sons[ind] is not None) else 0 for o in lst],
                       role + f":son{ind}")
            for ind in range(model.ttd):
                f.ints([min(o.owner, ncpu) for o in lst], role + f":cpu_map{ind}")
            for ind in range(model.ttd):
                f.ints(np.zeros(n), role + f":flag1{ind}")
    return f.close()


def cell_vars(model, kind):
    sp = model.spec
    if kind == "hydro":
        return list(sp["hydro"])
    if kind == "rt":
        return list(sp["rt"])
    return ["grav_potential"] + ["grav_acceleration_" + "xyz"[d] for d in range(sp["ndim"])]


def _write_cells(model, cpu, fname, kind):
    sp = model.spec
    ndim, ncpu, lmax, nb = sp["ndim"], sp["ncpu"], sp["levelmax"], sp["nboundary"]
    names = cell_vars(model, kind)
    nvar = len(names)
    f = RecFile(fname)
    f.ints([ncpu], "ncpu")
    if kind == "grav":
        f.ints([ndim + 1], "nvar")
    else:
        f.ints([nvar], "nvar")
        f.ints([ndim], "ndim")
    f.ints([lmax], "nlevelmax")
    f.ints([nb], "nboundary")
    if kind != "grav":
        f.dbls([sp["gamma"]], "gamma")
    blocks = model.files[cpu]
    for lev in range(1, lmax + 1):
        for dom in range(1, ncpu + nb + 1):
            lst = blocks.get((lev, dom), [])
            f.ints([lev], f"L{lev}D{dom}:ilevel")
            f.ints([len(lst)], f"L{lev}D{dom}:ncache")
            if not lst:
                continue
            ht = (sp.get("hydro_types") or {}) if kind == "hydro" else {}
            for ind in range(model.ttd):
                for iv in range(nvar):
                    vals = [model.value(o, ind, iv, kind, cpu) for o in lst]
                    if ht.get(names[iv]) == "i":
                        f.ints([int(v) for v in vals], f"L{lev}D{dom}:c{ind}v{iv}")
                    else:
                        f.dbls(vals, f"L{lev}D{dom}:c{ind}v{iv}")
    return f.close()


# ----------------------------------------------------------------------------- particles & sinks
def make_part(rng, spec):
    desc = list(PART_SETS[int(rng.integers(0, len(PART_SETS)))])
    ndim = spec["ndim"]
    desc = [(n, t) for (n, t) in desc if not ((n.endswith("_y") and ndim < 2) or (n.endswith("_z") and ndim < 3))]
    if len(desc) < 2:
        desc = [("mass", "d"), ("identity", "i")]
    if rng.random() < 0.35:
        # the on-disk type is a property of the file, not of the name: e.g. masses stored as integers
        desc = [(n, str(rng.choice(["d", "i", "b"])) if rng.random() < 0.4 else t) for n, t in desc]
    mode = rng.choice(["some", "some", "zero-some", "all-zero", "many"])
    counts = []
    for c in range(spec["ncpu"]):
        if mode == "all-zero":
            counts.append(0)
        elif mode == "zero-some" and rng.random() < 0.5:
            counts.append(0)
        elif mode == "many":
            counts.append(int(rng.integers(50, 400)))
        else:
            counts.append(int(rng.integers(0, 12)))
    hdr = [int(rng.choice([4, 8, 16, 32, 4 * int(rng.integers(1, 9))])) for _ in range(5)]
    return {"descriptor": [list(x) for x in desc], "counts": counts, "header_bytes": hdr}


def part_value(name, typ, cpu, row, icol):
    if typ == "d":
        return float((cpu * 4096 + row) * 32 + icol) + 0.5
    if typ == "i":
        return int((cpu * 4096 + row) * 32 + icol)
    return int((row * 7 + cpu * 3 + icol) % 120) - 60


def _write_part(model, cpu, fname):
    sp = model.spec
    p = sp["part"]
    n = p["counts"][cpu - 1]
    f = RecFile(fname)
    f.ints([sp["ncpu"]], "ncpu")
    f.ints([sp["ndim"]], "ndim")
    f.ints([n], "npart")
    for k, nb in enumerate(p["header_bytes"]):
        f.rec(bytes((k * 37 + j) % 251 for j in range(nb)), f"hdr{k}")
    for icol, (name, typ) in enumerate(p["descriptor"]):
        vals = [part_value(name, typ, cpu, r, icol) for r in range(n)]
        dt = {"d": "<f8", "i": "<i4", "b": "i1"}[typ]
        f.rec(np.asarray(vals, dtype=dt).tobytes(), f"col{icol}:{name}")
    return f.close()


SINK_COLUMNS = [
    ("id", "1"), ("msink", "m"), ("dmfsink", "m"), ("x", "l"), ("y", "l"), ("z", "l"),
    ("vx", "l t**-1"), ("vy", "l t**-1"), ("vz", "l t**-1"), ("lx", "m l**2 t**-1"), ("ly", "m l**2 t**-1"),
    ("lz", "m l**2 t**-1"), ("rot_period", "t"), ("acc_rate", "m t**-1"), ("age", "t"), ("level", "1"),
]
SINK_LEGACY = [
    ("number", "[1]"), ("mass", "[M_sun]"), ("x", "[au]"), ("y", "[au]"), ("z", "[au]"),
    ("vx", "[km/s]"), ("vy", "[km/s]"), ("vz", "[km/s]"), ("age", "[yr]"), ("radius", "[R_sun]"),
]


def make_sink(rng, spec):
    ndim = spec["ndim"]
    legacy = bool(rng.random() < 0.35)
    base = SINK_LEGACY if legacy else SINK_COLUMNS
    cols = [c for c in base if not ((c[0] in ("y", "vy", "ly") and ndim < 2) or (c[0] in ("z", "vz", "lz") and ndim < 3))]
    keep = [c for c in cols if rng.random() < 0.8 or c[0] in ("id", "number")]
    if len(keep) < 2:
        keep = cols[:3]
    mode = rng.choice(["many", "many", "one", "empty-file"])
    n = {"many": int(rng.integers(2, 9)), "one": 1, "empty-file": 0}[str(mode)]
    return {"columns": [list(c) for c in keep], "n": n, "legacy": legacy, "empty_file": str(mode) == "empty-file"}


def sink_value(row, icol):
    # even columns ascend with the row, odd columns descend: sorting by an odd column really reorders the table
    code = (row + 1) if icol % 2 == 0 else (97 - row)
    return float(code * 100 + icol) + 0.125


def _write_sink(model, fname):
    s = model.spec["sink"]
    if s["empty_file"]:
        open(fname, "w").close()
        return
    with open(fname, "w") as f:
        f.write(" # " + ",".join(c[0] for c in s["columns"]) + "\n")
        f.write(" # " + ",".join(c[1] for c in s["columns"]) + "\n")
        for r in range(s["n"]):
            f.write(",".join(repr(sink_value(r, i)) for i in range(len(s["columns"]))) + "\n")


# ----------------------------------------------------------------------------- expectations
def expected_mesh(model, lmax=None):
    """Leaves of the tree truncated at `lmax` (default: levelmax): arrays in code units."""
    sp = model.spec
    ndim = model.ndim
    lmax = sp["levelmax"] if lmax is None else lmax
    rows = {"level": [], "cpu": [], "uid": [], "ind": [], "pos": [], "refined_on_disk": []}
    for o in model.octs:
        if o.level > lmax:
            continue
        dx = 0.5 ** o.level
        for ind in range(model.ttd):
            has_son = o.sons is not None and o.sons[ind] is not None
            if has_son and o.level < lmax:
                continue
            off = cell_offset(ind, ndim)
            rows["level"].append(o.level)
            rows["cpu"].append(o.owner)
            rows["uid"].append(o.uid)
            rows["ind"].append(ind)
            rows["pos"].append([o.centre[d] + (off[d] - 0.5) * dx for d in range(ndim)])
            rows["refined_on_disk"].append(has_son)
    out = {k: np.array(v) for k, v in rows.items()}
    out["pos"] = out["pos"].reshape(-1, ndim)
    out["dx"] = 0.5 ** out["level"].astype(float)
    return out


def expected_values(model, exp, kind, ivar):
    """stored numbers (owner copies) of variable ivar of `kind` for the rows of expected_mesh"""
    base = ((exp["uid"].astype(float) % 1_000_000) * 8 + exp["ind"]) * 64 + ivar
    return base * 4 + KIND[kind] + 0.25


def decode_value(v):
    """-> dict describing which stored number this is (for messages)"""
    ghost = v < 0
    a = abs(v)
    boundary = abs((a % 1.0) - 0.75) < 1e-6
    if boundary:
        a -= 0.5
    k = int(round(a - 0.25))
    kind = k % 4
    k //= 4
    return {"ivar": k % 64, "ind": (k // 64) % 8, "uid": k // 512, "kind": {0: "hydro", 1: "grav", 2: "rt"}.get(kind, kind),
            "ghost_copy": bool(ghost), "boundary": bool(boundary)}
