"""E-MESH: meshes of non-overlapping cubic cells, brute-force point location with a face tolerance,
and helpers to drive osyris.map and observe the basis / kernel arguments it really uses."""
import sys

import numpy as np

from . import ramses_synth as rs


# ----------------------------------------------------------------------------- meshes
def make_mesh(rng, ndim=None, style=None, max_cells=3000):
    """-> dict(ndim, pos (n, ndim) and size (n,) in box units [0,1], level (n,), desc)"""
    ndim = int(ndim if ndim is not None else rng.choice([2, 3], p=[0.3, 0.7]))
    style = style or str(rng.choice(["uniform", "amr", "amr", "amr-holes", "needle", "single-level-holes"]))
    if style == "uniform":
        lev = int(rng.integers(1, 5 if ndim == 3 else 6))
        n = 2 ** lev
        g = (np.arange(n) + 0.5) / n
        pos = np.stack(np.meshgrid(*([g] * ndim), indexing="ij"), axis=-1).reshape(-1, ndim)
        size = np.full(len(pos), 1.0 / n)
        level = np.full(len(pos), lev)
    else:
        spec = rs.default_spec(ndim=ndim, levelmin=int(rng.integers(1, 3)), levelmax=int(rng.integers(3, 6)),
                               tree_seed=int(rng.integers(0, 2 ** 31)), refine_prob=float(rng.uniform(0.2, 0.6)),
                               max_octs=max_cells // (2 ** ndim), style="needle" if style == "needle" else "random")
        spec["levelmax"] = max(spec["levelmax"], spec["levelmin"] + 1)
        m = rs.Model(spec)
        m.grow()
        exp = rs.expected_mesh(m)
        pos, size, level = exp["pos"], exp["dx"], exp["level"]
    if style in ("amr-holes", "single-level-holes") and len(pos) > 4:
        keep = rng.random(len(pos)) > float(rng.uniform(0.05, 0.4))
        if keep.sum() >= 2:
            pos, size, level = pos[keep], size[keep], level[keep]
    perm = rng.permutation(len(pos))
    return {"ndim": ndim, "pos": pos[perm], "size": size[perm], "level": level[perm], "style": style}


def build_group(osy, mesh, length_unit, box, rng, dtype="float64", extra_vector=True):
    """Datagroup with position (Vector), dx, tag (= row+1, unique), a second scalar and a vector field."""
    ndim = mesh["ndim"]
    n = len(mesh["pos"])
    dg = osy.Datagroup()
    p = (mesh["pos"] * box).astype(dtype)
    dg["position"] = osy.Vector(*[p[:, d].copy() for d in range(ndim)], unit=length_unit)
    dg["dx"] = osy.Array(values=(mesh["size"] * box).astype(dtype), unit=length_unit)
    dg["tag"] = osy.Array(values=np.arange(1, n + 1, dtype=float), unit="g/cm**3")
    dg["temp"] = osy.Array(values=rng.integers(1, 1000, size=n).astype(float), unit="K")
    # integer-valued layers, as the loader produces them (level, cpu)
    dg["itag"] = osy.Array(values=np.arange(1, n + 1, dtype="int64"))
    dg["ilevel"] = osy.Array(values=np.asarray(mesh["level"]).astype("int32"))
    if extra_vector:
        comps = [rng.integers(-50, 50, size=n).astype(float) for _ in range(ndim)]
        dg["velocity"] = osy.Vector(*comps, unit="km/s")
    return dg


# ----------------------------------------------------------------------------- point location
def locate(P, centres, half, tau_rel=1e-9, tau_abs=0.0, chunk=4_000_000):
    """Brute force point location.  P (m, d) sample points, centres (n, d), half (n,) half sizes.
    -> strict (m,) index of the single cell strictly containing the point, -1 if none;
       ncand (m,) number of cells within tolerance (touching or containing);
       cand: dict point index -> array of candidate cells, for points with ncand != (1 if strict>=0 else 0)"""
    m, d = P.shape
    n = len(centres)
    strict = -np.ones(m, dtype=np.int64)
    ncand = np.zeros(m, dtype=np.int64)
    cand = {}
    tau = tau_rel * half + tau_abs
    step = max(1, chunk // max(n, 1))
    for a in range(0, m, step):
        b = min(m, a + step)
        dist = np.max(np.abs(P[a:b, None, :] - centres[None, :, :]) - half[None, :, None], axis=2)   # (mm, n)
        inside = dist < -tau[None, :]
        near = dist <= tau[None, :]
        ns = inside.sum(axis=1)
        nn = near.sum(axis=1)
        ncand[a:b] = nn
        one = (ns == 1) & (nn == 1)
        idx = np.argmax(inside, axis=1)
        strict[a:b] = np.where(one, idx, -1)
        for r in np.argwhere(~one & (nn > 0)).ravel():
            cand[a + int(r)] = np.argwhere(near[r]).ravel()
    return strict, ncand, cand


# ----------------------------------------------------------------------------- observation of map()
class MapSpy:
    """Wraps osyris.plot.map.get_direction / evaluate_on_grid (module attributes looked up at call time)
    to capture the basis and the kernel arguments of the next map() call."""

    def __init__(self):
        self.mod = sys.modules["osyris.plot.map"]
        self.basis = None
        self.kernel_kwargs = None
        self._gd = self.mod.get_direction
        self._ev = self.mod.evaluate_on_grid

    def __enter__(self):
        def gd(*a, **k):
            self.basis = self._gd(*a, **k)
            return self.basis

        def ev(*a, **k):
            self.kernel_kwargs = k if k else None
            return self._ev(*a, **k)
        self.mod.get_direction = gd
        self.mod.evaluate_on_grid = ev
        return self

    def __exit__(self, *exc):
        self.mod.get_direction = self._gd
        self.mod.evaluate_on_grid = self._ev
        return False


def basis_arrays(basis, ndim):
    """-> n, u, v as float arrays of length 3 (2-D maps use the fixed basis)"""
    if ndim < 3 or basis is None:
        return np.array([0.0, 0.0, 1.0]), np.array([1.0, 0.0, 0.0]), np.array([0.0, 1.0, 0.0])

    def c(v):
        return np.array([float(np.asarray(getattr(v, k).values)) for k in "xyz"])
    return c(basis.n), c(basis.u), c(basis.v)
