"""Reference implementation of RAMSES' 3-D Hilbert key (hilbert3d in hilbert.f90).

The 12-state diagram below is a pinned literal copy of the table RAMSES uses
(state_diagram(0:7, 0:1, 0:11), Fortran order); the key function is written
independently of osyris (integer arithmetic, no bit masks).  C04's structural
monitor checks the curve osyris computes against this one AND against the
defining properties of a Hilbert curve (bijection, unit steps, prefix property),
so a slip in either table is caught.
"""
import numpy as np

_TABLE = [
    1, 2, 3, 2, 4, 5, 3, 5, 0, 1, 3, 2, 7, 6, 4, 5, 2, 6, 0, 7, 8, 8, 0, 7, 0, 7, 1, 6, 3, 4, 2, 5,
    0, 9, 10, 9, 1, 1, 11, 11, 0, 3, 7, 4, 1, 2, 6, 5, 6, 0, 6, 11, 9, 0, 9, 8, 2, 3, 1, 0, 5, 4, 6,
    7, 11, 11, 0, 7, 5, 9, 0, 7, 4, 3, 5, 2, 7, 0, 6, 1, 4, 4, 8, 8, 0, 6, 10, 6, 6, 5, 1, 2, 7, 4,
    0, 3, 5, 7, 5, 3, 1, 1, 11, 11, 4, 7, 3, 0, 5, 6, 2, 1, 6, 1, 6, 10, 9, 4, 9, 10, 6, 7, 5, 4, 1,
    0, 2, 3, 10, 3, 1, 1, 10, 3, 5, 9, 2, 5, 3, 4, 1, 6, 0, 7, 4, 4, 8, 8, 2, 7, 2, 3, 2, 1, 5, 6,
    3, 0, 4, 7, 7, 2, 11, 2, 7, 5, 8, 5, 4, 5, 7, 6, 3, 2, 0, 1, 10, 3, 2, 6, 10, 3, 4, 4, 6, 1, 7,
    0, 5, 2, 4, 3
]
STATE = np.array(_TABLE, dtype=np.int64).reshape((8, 2, 12), order="F")


def hilbert3d(ix, iy, iz, bit_length):
    """key of integer coordinates (0 <= i < 2**bit_length); scalars or equal-shaped integer arrays"""
    ix, iy, iz = (np.asarray(a, dtype=np.int64) for a in (ix, iy, iz))
    state = np.zeros(ix.shape, dtype=np.int64)
    key = np.zeros(ix.shape, dtype=object if 3 * bit_length > 62 else np.int64)
    for i in range(bit_length - 1, -1, -1):
        sdigit = (((ix >> i) & 1) << 2) | (((iy >> i) & 1) << 1) | ((iz >> i) & 1)
        hdigit = STATE[sdigit, 1, state]
        state = STATE[sdigit, 0, state]
        key = key * 8 + hdigit
    return key


def hilbert2d(ix, iy, bit_length):
    """A 2-D Hilbert key (classic rotation algorithm).  Only used to distribute octs of 2-D outputs
    over CPUs in a spatially coherent way; osyris never evaluates a 2-D curve."""
    ix, iy = np.asarray(ix, dtype=np.int64).copy(), np.asarray(iy, dtype=np.int64).copy()
    key = np.zeros(ix.shape, dtype=np.int64)
    s = 1 << (bit_length - 1) if bit_length > 0 else 0
    while s > 0:
        rx = ((ix & s) > 0).astype(np.int64)
        ry = ((iy & s) > 0).astype(np.int64)
        key += s * s * ((3 * rx) ^ ry)
        # rotate
        flip = (ry == 0) & (rx == 1)
        ix = np.where(flip, s - 1 - ix, ix)
        iy = np.where(flip, s - 1 - iy, iy)
        swap = ry == 0
        ix, iy = np.where(swap, iy, ix), np.where(swap, ix, iy)
        s >>= 1
    return key
