"""E-SNAP: deep fingerprints of argument objects ("unchanged" = equal fingerprints)."""
import hashlib

import numpy as np


def _arr(a):
    a = np.asarray(a)
    if a.dtype == object:
        return ("obj", a.shape, repr(a.tolist())[:2000])
    mask = None
    if isinstance(a, np.ma.MaskedArray):
        mask = hashlib.sha1(np.ascontiguousarray(np.ma.getmaskarray(a)).tobytes()).hexdigest()
        a = np.ma.getdata(a)
    return (str(a.dtype), a.shape, hashlib.sha1(np.ascontiguousarray(a).tobytes()).hexdigest(), mask)


def fp(obj, depth=0):
    """Structural fingerprint.  Knows osyris' Array/Vector/Datagroup/Dataset/Layer by duck type."""
    if depth > 10:
        return "deep"
    cls = type(obj).__name__
    if obj is None or isinstance(obj, (str, bool, int, float, complex)):
        return (cls, obj)
    if isinstance(obj, np.ndarray):
        return ("ndarray",) + _arr(obj)
    if isinstance(obj, np.generic):
        return ("npscalar", str(obj.dtype), obj.item())
    if cls == "Array" and hasattr(obj, "_array"):
        return ("Array", _arr(obj._array), str(obj.unit), obj.name)
    if cls == "Vector" and hasattr(obj, "x"):
        return ("Vector", obj.name, tuple((c, fp(getattr(obj, c), depth + 1)) for c in "xyz" if getattr(obj, c) is not None))
    if cls == "Datagroup" and hasattr(obj, "_container"):
        return ("Datagroup", obj.name, tuple((k, fp(v, depth + 1)) for k, v in obj.items()))
    if cls in ("Dataset", "RamsesDataset") and hasattr(obj, "groups"):
        return (cls, tuple((k, fp(v, depth + 1)) for k, v in obj.items()),
                fp({k: v for k, v in obj.meta.items()}, depth + 1))
    if cls == "Layer" and hasattr(obj, "arrays"):
        return ("Layer", obj.key, fp(dict(obj.arrays), depth + 1), obj.mode, obj.operation,
                fp(obj.norm, depth + 1), fp(obj.vmin, depth + 1), fp(obj.vmax, depth + 1),
                fp(obj.bins, depth + 1), fp(obj.weights, depth + 1), fp(dict(obj.kwargs), depth + 1))
    if cls == "VectorBasis":
        return ("VectorBasis", fp(obj.n, depth + 1), fp(obj.u, depth + 1), fp(obj.v, depth + 1))
    if hasattr(obj, "magnitude") and hasattr(obj, "units"):
        return ("Quantity", fp(obj.magnitude, depth + 1), str(obj.units))
    if hasattr(obj, "_units") and hasattr(obj, "dimensionality"):
        return ("Unit", str(obj))
    if isinstance(obj, dict):
        return ("dict", tuple((repr(k), fp(v, depth + 1)) for k, v in obj.items()))
    if isinstance(obj, (list, tuple)):
        return (cls, tuple(fp(v, depth + 1) for v in obj))
    if hasattr(obj, "vmin") and hasattr(obj, "vmax") and hasattr(obj, "autoscale"):
        return ("norm", cls, fp(obj.vmin, depth + 1), fp(obj.vmax, depth + 1))
    return ("other", cls, repr(obj)[:200])


def diff(a, b, path=""):
    """First difference between two fingerprints (for messages)."""
    if a == b:
        return None
    if isinstance(a, tuple) and isinstance(b, tuple) and len(a) == len(b):
        for i, (x, y) in enumerate(zip(a, b)):
            d = diff(x, y, f"{path}/{i}")
            if d:
                return d
    return f"{path}: {str(a)[:120]} -> {str(b)[:120]}"
