"""JSON-able descriptions of load(select=...) predicates, turned into (a) callables for osyris and
(b) masks on the synthesiser's expected rows."""
import numpy as np

from . import ramses_synth as rs
from .io_monitors import expected_unit

CGS_UNIT = {  # unit strings in which thresholds are handed to osyris, per dimension class
    "density": "g/cm**3", "length": "cm", "velocity": "cm/s", "pressure": "erg/cm**3", "none": "",
}


def make_callable(osy, pred):
    """pred: {"var":..., "op": one of < <= > >= == between, "value": number or [lo, hi], "unit": str}
    -> function of the reader's buffer (an osyris Array; for 'level' also a plain integer ndarray)"""
    op, unit = pred["op"], pred.get("unit", "")

    def thr(v):
        if unit == "" or unit is None:
            return v
        return osy.Array(values=v, unit=unit)

    if op == "<":
        return lambda x: x < thr(pred["value"])
    if op == "<=":
        return lambda x: x <= thr(pred["value"])
    if op == ">":
        return lambda x: x > thr(pred["value"])
    if op == ">=":
        return lambda x: x >= thr(pred["value"])
    if op == "==":
        return lambda x: x == thr(pred["value"])
    if op == "between":      # open interval lo < x < hi
        lo, hi = pred["value"]
        return lambda x: (x > thr(lo)) & (x < thr(hi))
    if op == "between-closed":
        lo, hi = pred["value"]
        return lambda x: (x >= thr(lo)) & (x <= thr(hi))
    raise ValueError(op)


def eval_numbers(pred, x):
    op = pred["op"]
    v = pred["value"]
    if op == "<":
        return x < v
    if op == "<=":
        return x <= v
    if op == ">":
        return x > v
    if op == ">=":
        return x >= v
    if op == "==":
        return x == v
    if op == "between":
        return (x > v[0]) & (x < v[1])
    if op == "between-closed":
        return (x >= v[0]) & (x <= v[1])
    raise ValueError(op)


def level_cap(preds, levelmax):
    """highest level accepted by the level predicate (None if there is none)"""
    for p in preds:
        if p["var"] == "level":
            ok = eval_numbers(p, np.arange(1, levelmax + 1))
            if not ok.any():
                return 0
            return int(np.arange(1, levelmax + 1)[ok].max())
    return None


def model_column(model, exp, var):
    """physical CGS numbers of variable `var` for the expected rows"""
    sp = model.spec
    boxcm = sp["boxlen"] * sp["unit_l"]
    if var == "level":
        return exp["level"].astype(float)
    if var == "cpu":
        return exp["cpu"].astype(float)
    if var == "dx":
        return exp["dx"] * boxcm
    if var.startswith("position_"):
        return exp["pos"][:, "xyz".index(var[-1])] * boxcm
    for kind in ("hydro", "grav", "rt"):
        if kind == "grav" and not sp["grav"]:
            continue
        if kind == "rt" and not sp["rt"]:
            continue
        names = rs.cell_vars(model, kind)
        if var in names:
            fac, _ = expected_unit(var, sp)
            return rs.expected_values(model, exp, kind, names.index(var)) * fac
    raise KeyError(var)


def model_mask(model, exp, preds):
    m = np.ones(len(exp["level"]), dtype=bool)
    for p in preds:
        m &= eval_numbers(p, model_column(model, exp, p["var"]))
    return m


def filter_exp(exp, mask):
    return {k: (v[mask] if isinstance(v, np.ndarray) and len(v) == len(mask) else v) for k, v in exp.items()}


def to_select(osy, preds):
    return {p["var"]: make_callable(osy, p) for p in preds}


def decisive(model, exp, preds, rel=1e-9):
    """False if some expected row lies within rounding of a threshold (then the verdict of a correct
    implementation is not determined and the case is not judged)"""
    for p in preds:
        col = model_column(model, exp, p["var"])
        vals = p["value"] if isinstance(p["value"], (list, tuple)) else [p["value"]]
        for v in vals:
            if p["var"] in ("level", "cpu"):
                continue
            scale = np.maximum(np.abs(col), abs(v))
            if np.any(np.abs(col - v) <= rel * scale):
                return False
    return True
