"""Small helpers: seeded RNGs, JSON conversion, digests, guarded calls."""
import hashlib
import json
import os
import traceback

import numpy as np

PROP_NUM = {f"C{i:02d}": i for i in range(1, 100)}


def rng_for(seed, prop, *path):
    """Independent generator for (VERIF_SEED, property, path...)."""
    words = [int(seed) & 0xFFFFFFFF, PROP_NUM.get(prop, 0)]
    for p in path:
        if isinstance(p, str):
            p = int.from_bytes(hashlib.sha1(p.encode()).digest()[:4], "little")
        words.append(int(p) & 0xFFFFFFFF)
    return np.random.default_rng(np.random.SeedSequence(words))


def jsonable(x, depth=0):
    """Convert numpy / osyris-free python objects to something json.dumps accepts."""
    if depth > 8:
        return repr(x)[:200]
    if isinstance(x, (str, bool, type(None))):
        return x
    if isinstance(x, (int, np.integer)):
        return int(x)
    if isinstance(x, (float, np.floating)):
        x = float(x)
        if x != x or x in (float("inf"), float("-inf")):
            return repr(x)
        return x
    if isinstance(x, np.bool_):
        return bool(x)
    if isinstance(x, np.ndarray):
        if x.size > 24:
            return {"shape": list(x.shape), "dtype": str(x.dtype),
                    "head": jsonable(x.ravel()[:12].tolist(), depth + 1)}
        return jsonable(x.tolist(), depth + 1)
    if isinstance(x, dict):
        return {str(k): jsonable(v, depth + 1) for k, v in x.items()}
    if isinstance(x, (list, tuple, set, frozenset)):
        return [jsonable(v, depth + 1) for v in x]
    return repr(x)[:300]


def digest(obj):
    return hashlib.sha1(
        json.dumps(jsonable(obj), sort_keys=True, default=repr).encode()
    ).hexdigest()[:16]


class Outcome:
    """Result of calling code under test: either a value or the exception raised."""

    __slots__ = ("ok", "value", "exc", "tb")

    def __init__(self, ok, value=None, exc=None, tb=None):
        self.ok, self.value, self.exc, self.tb = ok, value, exc, tb

    def describe(self):
        if self.ok:
            return "returned " + repr(self.value)[:160]
        return f"raised {type(self.exc).__name__}: {str(self.exc)[:200]}"


def attempt(fn, *args, **kwargs):
    """Call code under test; never lets its exception escape."""
    try:
        return Outcome(True, fn(*args, **kwargs))
    except Exception as e:  # noqa: BLE001 - everything is judged by the caller
        return Outcome(False, exc=e, tb=traceback.format_exc(limit=8))


def through_osyris(tb_exc, root):
    """True if the traceback of an exception passes through a frame of the tree under test."""
    tb = tb_exc.__traceback__
    root = os.path.join(root, "osyris") + os.sep
    while tb is not None:
        fn = os.path.realpath(tb.tb_frame.f_code.co_filename)
        if fn.startswith(root):
            return True
        tb = tb.tb_next
    return False


class Case(dict):
    """A case descriptor: JSON-able dict with at least 'id'."""


class Result:
    """What a monitor run on one case reports back to the driver."""

    def __init__(self, case):
        self.case = case
        self.violations = []   # {"mech":..., "msg":..., "detail":...}
        self.monitors = {}     # name -> evaluations
        self.nontrivial = False
        self.sample = None
        self.inconclusive = []  # reasons
        self.tags = set()       # free-form coverage tags (mechanism checkpoints etc.)
        self.digest_src = None

    def count(self, monitor, n=1):
        self.monitors[monitor] = self.monitors.get(monitor, 0) + n

    def violate(self, mech, msg, **detail):
        if len(self.violations) < 12:
            self.violations.append(
                {"mech": mech, "msg": msg[:600], "detail": jsonable(detail)}
            )

    def tag(self, *names):
        self.tags.update(names)

    def to_json(self):
        return {
            "id": self.case.get("id"),
            "case": jsonable(dict(self.case)),
            "digest": digest(self.digest_src if self.digest_src is not None else dict(self.case)),
            "nontrivial": bool(self.nontrivial),
            "violations": self.violations,
            "monitors": self.monitors,
            "inconclusive": self.inconclusive,
            "tags": sorted(self.tags),
            "sample": jsonable(self.sample) if self.sample is not None else None,
        }
