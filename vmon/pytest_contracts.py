"""pytest plugin (-p vmon.pytest_contracts): runs a test session with the E-CONTRACT conditions installed on
the osyris classes and dumps what they recorded to $VMON_CONTRACT_OUT."""
import os


def pytest_configure(config):
    from . import boot, contracts
    osy = boot.import_osyris()
    contracts.install(osy)


def pytest_sessionfinish(session, exitstatus):
    from . import contracts
    out = os.environ.get("VMON_CONTRACT_OUT")
    if out:
        contracts.dump(out)
