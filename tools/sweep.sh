#!/bin/sh
# usage: tools/sweep.sh <tier> "<seeds>" "<props>"     (never rewrites evidence; prints one line per run)
tier=${1:-quick}; seeds=${2:-"1 2 3"}; props=${3:-"C01 C02 C03 C04 C05 C06 C07 C08 C09 C10 C11 C12 C13 C14 C15 C16 C17 C18 C19 C20"}
cd "$(dirname "$0")/.." || exit 2
rc=0
for p in $props; do for s in $seeds; do
  out=$(./check $p --tier $tier --seed $s --no-evidence 2>&1); e=$?
  echo "$p seed=$s tier=$tier exit=$e :: $(echo "$out" | grep -E 'HELD|VIOLATION|INCONCLUSIVE|by mechanism' | head -3 | tr '\n' '|' | cut -c1-400)"
  [ $e -ne 0 ] && rc=1
done; done
exit $rc
