#!/venv/bin/python
"""Confirm a seeded change produced by an independent sub-agent and run the checks against it.

usage: tools/seedcheck.py <ID> <agent worktree> [--props C01,C15] [--round r1]

1. copies SEED/{patch.diff,demo.py,notes.md} to /verif/seeded/<ID>[-<round>]/
2. confirms in the agent's scratch worktree: 192 tests pass with the change; demo fails with it and passes
   without it (git apply -R / git apply)
3. applies the patch to /repo, runs the quick tier of the listed checks (default: all 20) with --no-evidence,
   and undoes it straight afterwards (git -C /repo checkout -- .)
4. writes meta.json
"""
import json
import os
import shutil
import subprocess
import sys
import tempfile

VERIF = os.path.dirname(os.path.dirname(os.path.abspath(__file__)))
ALL = [f"C{i:02d}" for i in range(1, 21)]


def sh(cmd, cwd=None, env=None, timeout=3600):
    r = subprocess.run(cmd, shell=True, cwd=cwd, env=env, capture_output=True, text=True, timeout=timeout)
    return r.returncode, (r.stdout + r.stderr)


def main():
    pid, wt = sys.argv[1], sys.argv[2]
    props = ALL
    rnd = ""
    if "--props" in sys.argv:
        props = sys.argv[sys.argv.index("--props") + 1].split(",")
    if "--round" in sys.argv:
        rnd = "-" + sys.argv[sys.argv.index("--round") + 1]
    dst = os.path.join(VERIF, "seeded", pid + rnd)
    os.makedirs(dst, exist_ok=True)
    for f in ("patch.diff", "demo.py", "notes.md"):
        src = os.path.join(wt, "SEED", f)
        if os.path.exists(src):
            shutil.copy(src, os.path.join(dst, f))
    patch = os.path.join(dst, "patch.diff")
    home = tempfile.mkdtemp(prefix="seedhome-")
    env = dict(os.environ, HOME=home, PYTHONPATH=os.path.join(wt, "src"), MPLBACKEND="Agg", PYTHONDONTWRITEBYTECODE="1")
    meta = {"property": pid, "patch": "patch.diff", "demo": "demo.py"}
    # make sure the worktree has exactly the patch applied
    sh("git checkout -- . ", cwd=wt)
    rc, out = sh(f"git apply {patch}", cwd=wt)
    meta["patch_applies"] = rc == 0
    rc, out = sh("/venv/bin/python -B -m pytest -q -p no:cacheprovider --timeout=900 test", cwd=wt, env=env)
    meta["tests_with_change"] = out.strip().splitlines()[-1] if out.strip() else ""
    meta["tests_pass_with_change"] = rc == 0
    rc1, out1 = sh(f"/venv/bin/python -B {os.path.join(dst, 'demo.py')}", cwd=wt, env=env, timeout=1800)
    meta["demo_with_change"] = {"exit": rc1, "tail": out1.strip().splitlines()[-3:]}
    sh(f"git apply -R {patch}", cwd=wt)
    rc2, out2 = sh(f"/venv/bin/python -B {os.path.join(dst, 'demo.py')}", cwd=wt, env=env, timeout=1800)
    meta["demo_without_change"] = {"exit": rc2, "tail": out2.strip().splitlines()[-3:]}
    sh(f"git apply {patch}", cwd=wt)
    meta["confirmed"] = bool(meta["patch_applies"] and meta["tests_pass_with_change"] and rc1 != 0 and rc2 == 0)
    shutil.rmtree(home, ignore_errors=True)
    if "--via-src" in sys.argv:
        # do not touch /repo (something else is using it): point the checks at the agent's patched worktree
        results = {}
        env2 = dict(os.environ, OSYRIS_SRC=os.path.join(wt, "src"))
        for p in props:
            rc, out = sh(f"./check {p} --tier quick --no-evidence", cwd=VERIF, env=env2)
            mech = [ln.strip() for ln in out.splitlines() if "violations by mechanism" in ln]
            results[p] = {"exit": rc, "mechanisms": mech[0][-400:] if mech else "",
                          "verdict": {0: "held", 1: "VIOLATION", 2: "inconclusive"}.get(rc, str(rc))}
            print(pid, p, results[p]["verdict"], results[p]["mechanisms"][:200], flush=True)
        print(json.dumps({"property": pid, "confirmed": meta["confirmed"], "via": "OSYRIS_SRC",
                          "caught_by": sorted(p for p, r in results.items() if r["exit"] == 1)}))
        return 0
    # run the checks against /repo with the patch applied
    rc, out = sh("git -C /repo status --porcelain --untracked-files=no")
    if out.strip():
        print("refusing: /repo has local modifications:", out)
        return 2
    results = {}
    rc, out = sh(f"git -C /repo apply {patch}")
    if rc != 0:
        meta["applies_to_repo"] = False
        meta["apply_error"] = out[-300:]
    else:
        meta["applies_to_repo"] = True
        try:
            for p in props:
                rc, out = sh(f"./check {p} --tier quick --no-evidence", cwd=VERIF)
                mech = [ln.strip() for ln in out.splitlines() if "violations by mechanism" in ln]
                wit = [ln.strip()[:400] for ln in out.splitlines() if ln.strip().startswith("witness")][:2]
                results[p] = {"exit": rc, "mechanisms": mech[0][-400:] if mech else "", "witness": wit,
                              "verdict": {0: "held", 1: "VIOLATION", 2: "inconclusive"}.get(rc, str(rc))}
                print(pid, p, results[p]["verdict"], results[p]["mechanisms"][:200], flush=True)
        finally:
            sh("git -C /repo checkout -- .")
    meta["checks"] = results
    meta["caught_by"] = sorted(p for p, r in results.items() if r["exit"] == 1)
    meta["what_i_ran"] = ("tools/seedcheck.py: tests + demo in the agent's scratch worktree (with and without the patch), then "
                          "`git -C /repo apply patch.diff`, `./check <id> --tier quick --no-evidence` for "
                          + ",".join(props) + ", `git -C /repo checkout -- .`")
    with open(os.path.join(dst, "meta.json"), "w") as f:
        json.dump(meta, f, indent=1)
    print(json.dumps({k: meta[k] for k in ("property", "confirmed", "caught_by", "tests_with_change")}, indent=0))
    return 0


if __name__ == "__main__":
    sys.exit(main())
