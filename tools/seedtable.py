#!/venv/bin/python
"""Print the markdown table of seeded changes (DESIGN.md 9.5) from seeded/*/meta.json."""
import glob
import json
import os
import re

VERIF = os.path.dirname(os.path.dirname(os.path.abspath(__file__)))
rows = []
NEEDS = json.load(open(os.path.join(VERIF, "seeded", "needs.json"))) if os.path.exists(os.path.join(VERIF, "seeded", "needs.json")) else {}
for d in sorted(glob.glob(os.path.join(VERIF, "seeded", "*"))):
    mp = os.path.join(d, "meta.json")
    if not os.path.exists(mp):
        continue
    m = json.load(open(mp))
    name = os.path.basename(d)
    own = m["property"]
    caught = m.get("caught_by", [])
    mech = ""
    if own in m.get("checks", {}):
        mm = re.search(r"\{.*\}", m["checks"][own].get("mechanisms", ""))
        mech = mm.group(0) if mm else ""
    rows.append((name, own, "yes" if m.get("confirmed") else "NO", ", ".join(caught) or "—",
                 "yes" if own in caught else "no", NEEDS.get(name, m.get("needs", "")), mech[:110]))
print("| seed | property | confirmed | caught by (quick tier) | own check | needs, in order to manifest | mechanisms reported by the own check |")
print("|---|---|---|---|---|---|---|")
for r in rows:
    print("| " + " | ".join(r) + " |")
