#!/venv/bin/python
"""Which source lines of osyris did the monitors' workloads actually execute?

usage: tools/coverage.py [--tier quick] [--props C01,C02] [--src /repo/src] [--write]

Runs the listed checks (default: all 20, quick tier, --no-evidence) with VMON_LINES_DIR set, so that every worker
dumps the (file, line) pairs E-TRACE saw; merges them, and compares with the executable lines of every module of
the tree (code objects' co_lines).  Functions compiled by numba are listed separately: their Python lines never
execute (they are observed through the schedule sweep / boundscheck build / emulated runtime instead).

Prints, per file, the executable lines no workload reached, with their source text; --write stores the summary
in evidence/coverage.json.  This is a blind-spot finder for the generators, not a verdict: a line that is
executed is not thereby judged, and a line never executed cannot have been.
"""
import ast
import json
import os
import shutil
import subprocess
import sys
import tempfile

VERIF = os.path.dirname(os.path.dirname(os.path.abspath(__file__)))
ALL = [f"C{i:02d}" for i in range(1, 21)]


def executable_lines(path):
    src = open(path).read()
    code = compile(src, path, "exec")
    lines = set()
    todo = [code]
    while todo:
        c = todo.pop()
        if c.co_flags & 0x1:      # CO_OPTIMIZED: a function body (module and class bodies run at import, before tracing)
            for _s, _e, ln in c.co_lines():
                if ln is not None and ln > c.co_firstlineno:
                    lines.add(ln)
        todo += [k for k in c.co_consts if hasattr(k, "co_lines")]
    # numba-compiled functions and docstring-only lines
    tree = ast.parse(src)
    jitted = {}
    for node in ast.walk(tree):
        if isinstance(node, (ast.FunctionDef,)):
            for d in node.decorator_list:
                txt = ast.unparse(d)
                if "njit" in txt or "jit(" in txt or txt.endswith("jit"):
                    body = set(range(node.body[0].lineno, node.end_lineno + 1))
                    jitted[node.name] = sorted(body & lines)
    return lines, jitted, src.splitlines()


def main():
    tier = "quick"
    props = ALL
    src = os.environ.get("OSYRIS_SRC", "/repo/src")
    if "--tier" in sys.argv:
        tier = sys.argv[sys.argv.index("--tier") + 1]
    if "--props" in sys.argv:
        props = sys.argv[sys.argv.index("--props") + 1].split(",")
    if "--src" in sys.argv:
        src = sys.argv[sys.argv.index("--src") + 1]
    d = tempfile.mkdtemp(prefix="vmon-lines-")
    hits = {}
    per_prop = {}
    branches = {}
    if "--load-hits" in sys.argv:
        raw = json.load(open(sys.argv[sys.argv.index("--load-hits") + 1]))
        per_prop = {rel: {p: set(v) for p, v in pp.items()} for rel, pp in raw.items()}
        hits = {rel: set().union(*pp.values()) for rel, pp in per_prop.items()}
        props = []
    try:
        for p in props:
            env = dict(os.environ, VMON_LINES_DIR=d, OSYRIS_SRC=src)
            if "--branches" in sys.argv:
                env["VMON_BRANCHES"] = "1"
            r = subprocess.run([os.path.join(VERIF, "check"), p, "--tier", tier, "--no-evidence"], cwd=VERIF, env=env,
                               capture_output=True, text=True)
            last = r.stdout.strip().splitlines()[-1] if r.stdout.strip() else r.stderr[-200:]
            print(f"{p}: exit {r.returncode} :: {last[:120]}", flush=True)
            for f in os.listdir(d):
                if not f.startswith(p + "-"):
                    continue
                blob = json.load(open(os.path.join(d, f)))
                for rel, dd in blob.pop("__branches__", {}).items():
                    for ln, outs in dd.items():
                        branches.setdefault(rel, {}).setdefault(ln, set()).update(outs)
                for rel, lns in blob.items():
                    hits.setdefault(rel, set()).update(lns)
                    per_prop.setdefault(rel, {}).setdefault(p, set()).update(lns)
    finally:
        shutil.rmtree(d, ignore_errors=True)
    if "--save-hits" in sys.argv:
        with open(sys.argv[sys.argv.index("--save-hits") + 1], "w") as f:
            json.dump({rel: {p: sorted(v) for p, v in pp.items()} for rel, pp in per_prop.items()}, f)
    root = os.path.join(src, "osyris")
    summary = {}
    for dp, _dn, fns in sorted(os.walk(root)):
        for fn in sorted(fns):
            if not fn.endswith(".py"):
                continue
            path = os.path.join(dp, fn)
            rel = os.path.relpath(path, root)
            exe, jitted, text = executable_lines(path)
            jl = set(ln for v in jitted.values() for ln in v)
            got = hits.get(rel, set())
            missed = sorted((exe - jl) - got)
            summary[rel] = {"executable": len(exe - jl), "executed": len((exe - jl) & got),
                            "numba_compiled_functions": sorted(jitted),
                            "not_executed": [{"line": ln, "text": text[ln - 1].strip()[:110]} for ln in missed],
                            "executed_by": {p: len(v & exe) for p, v in sorted(per_prop.get(rel, {}).items())}}
            pct = 100.0 * summary[rel]["executed"] / max(1, summary[rel]["executable"])
            print(f"\n== {rel}: {summary[rel]['executed']}/{summary[rel]['executable']} executable lines executed ({pct:.0f}%)"
                  + (f"; numba-compiled: {', '.join(sorted(jitted))}" if jitted else ""))
            for m in summary[rel]["not_executed"]:
                print(f"   {m['line']:5d}  {m['text']}")
            if rel in branches:
                one_sided = []
                for ln, outs in sorted(branches[rel].items(), key=lambda kv: int(kv[0]) if kv[0].isdigit() else 0):
                    by_src = {}
                    for o in outs:
                        a, _, b = o.partition("->")
                        by_src.setdefault(a, set()).add(b)
                    txt = text[int(ln) - 1].strip() if ln.isdigit() else ""
                    conditional = txt.startswith(("if ", "elif ", "while ", "assert ")) or " if " in txt or " and " in txt or " or " in txt
                    if any(len(v) < 2 for v in by_src.values()) and ln.isdigit() and conditional:
                        one_sided.append({"line": int(ln), "text": text[int(ln) - 1].strip()[:110],
                                          "jumps": {a: sorted(v) for a, v in by_src.items()}})
                summary[rel]["one_sided_branches"] = one_sided
                print(f"   -- conditional jumps seen with one outcome only: {len(one_sided)}")
                for m in one_sided:
                    print(f"   {m['line']:5d}? {m['text']}    {m['jumps']}")
    if "--write" in sys.argv:
        sys.path.insert(0, VERIF)
        from vmon import boot
        with open(os.path.join(VERIF, "evidence", "coverage.json"), "w") as f:
            json.dump({"tree": boot.tree_info(), "tier": tier, "checks": props,
                       "note": "lines executed by the checks' workloads (sys.monitoring LINE events merged over all workers); "
                               "a blind-spot finder, not a verdict", "files": summary}, f, indent=1)
    return 0


if __name__ == "__main__":
    sys.exit(main())
