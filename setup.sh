#!/bin/sh
# MANIFEST.setup_cmd: nothing to compile (osyris is pure Python, the numba kernels
# are re-JITted from /repo's working tree by every worker).  Only installs the
# icontract runtime-contract library from the offline wheelhouse into /verif/.deps.
cd "$(dirname "$0")" || exit 1
mkdir -p evidence
/venv/bin/python -B -c "from vmon import boot; import sys; sys.exit(0 if boot.ensure_deps(verbose=True) else 1)"
